(* PC08.v — property C08: phantom records account for every possible card and are scored worst-case.
   Statements about the model of Phantoms.v (tied to shangrla/core/Audit.py, formats/Dominion.py, formats/Hart.py by
   harness/c08.py on every run).  Cards, contests and identifiers are numbers; [Phant j] stands for prefix ++ str(j).
   eff_bound mc (id, b) = b if the contest has its own card bound, else the stratum's bound mc.
   real_count id l = number of non-phantom records of l listing the contest; count_listing id l = number of records listing it. *)
From SV Require Import Phantoms Phantoms_proofs.
Open Scope Z_scope.

(* Style information used: every contest ends with exactly (its bound) records listing it, for every CVR list without
   phantoms (the empty list included), every order of the contests, every combination of shortfalls; contest.cards and
   contest.cvrs are set to the bound and to the number of CVRs listing the contest. *)
Theorem C08_counts_style :
  forall mc contests cvrs tp pool,
  NoDup (map fst contests) -> no_phantoms cvrs -> bounds_ok_style mc contests cvrs ->
  exists phs, make_phantoms [(true, mc)] contests cvrs tp pool
              = Ok (cvrs ++ phs, Z.of_nat (length phs),
                    map (fun kc => mkcs (fst kc) (eff_bound mc kc) (real_count (fst kc) cvrs)) contests)
    /\ (forall kc b, In kc contests -> eff_bound mc kc = Some b -> count_listing (fst kc) (cvrs ++ phs) = b).
Proof. exact counts_style. Qed.
Print Assumptions C08_counts_style.

(* No style information: the total number of records equals the stratum's bound; every contest gets cards = that bound. *)
Theorem C08_counts_nostyle :
  forall mc contests cvrs tp pool,
  Z.of_nat (length cvrs) <= mc ->
  exists phs, make_phantoms [(false, Some mc)] contests cvrs tp pool
              = Ok (cvrs ++ phs, mc - Z.of_nat (length cvrs),
                    map (fun kc => mkcs (fst kc) (Some mc) (real_count (fst kc) cvrs)) contests)
    /\ Z.of_nat (length (cvrs ++ phs)) = mc
    /\ Z.of_nat (length phs) = mc - Z.of_nat (length cvrs).
Proof. exact counts_nostyle. Qed.
Print Assumptions C08_counts_nostyle.

(* Whenever the call returns (any strata, bounds, style): the originals come back first and unchanged, everything after
   them is flagged phantom, and the returned number is the number of records added (when it is not negative). *)
Theorem C08_originals_first :
  forall strata contests cvrs tp pool out n ks,
  make_phantoms strata contests cvrs tp pool = Ok (out, n, ks) ->
  exists phs, out = cvrs ++ phs /\ firstn (length cvrs) out = cvrs /\ Forall (fun c => cphantom c = true) phs
              /\ Z.of_nat (length phs) = Z.max 0 n.
Proof. exact originals_first. Qed.
Print Assumptions C08_originals_first.

(* Phantom identifiers are prefix1, prefix2, ... in order, hence pairwise different; and the whole returned list has
   unique identifiers when the originals do and none of them is of the form prefix ++ number. *)
Theorem C08_ids_unique :
  forall strata contests cvrs tp pool out n ks,
  make_phantoms strata contests cvrs tp pool = Ok (out, n, ks) ->
  exists phs, out = cvrs ++ phs /\ map cid phs = first_ids (length phs) /\ NoDup (map cid phs)
    /\ (NoDup (map cid cvrs) -> (forall c j, In c cvrs -> cid c <> Phant j) -> NoDup (map cid out)).
Proof. exact ids_unique. Qed.
Print Assumptions C08_ids_unique.

(* No more phantoms than the largest shortfall: n = max(0, max_c (bound_c - cvrs_c)) exactly (max_short). *)
Theorem C08_no_excess :
  forall mc contests cvrs tp pool out n ks,
  make_phantoms [(true, mc)] contests cvrs tp pool = Ok (out, n, ks) ->
  n = max_short ks /\ Z.of_nat (length out) = Z.of_nat (length cvrs) + max_short ks
  /\ ks = map (fun kc => mkcs (fst kc) (eff_bound mc kc) (real_count (fst kc) cvrs)) contests.
Proof. exact no_excess_style. Qed.
Print Assumptions C08_no_excess.

Theorem C08_max_short_is_largest_shortfall :
  forall ks, 0 <= max_short ks /\ (forall k, In k ks -> short k <= max_short ks)
             /\ (max_short ks = 0 \/ exists k, In k ks /\ short k = max_short ks).
Proof. intro ks. split; [apply max_short_nonneg | apply max_short_spec]. Qed.
Print Assumptions C08_max_short_is_largest_shortfall.

Open Scope Q_scope.
(* Replacing the manual record by a phantom never increases the overstatement assorter, for EVERY assorter with
   nonnegative values (in particular every assorter into [0,u]), every margin v < 2u, style on or off, pooled or not,
   whatever either record lists; and the phantom raises an error exactly when the manual record does (errors depend on
   the CVR only).  pool_means_finite: the pool means that exist are numbers (np.nan arises only for an empty pool). *)
Theorem C08_phantom_mvr_worst :
  forall (A : card -> Q) k pm u v us mvr ph cvr,
  0 < u -> v < 2 * u -> (forall c, 0 <= A c) -> cphantom ph = true -> pool_means_finite pm ->
  match overstatement_assorter A k pm u v us mvr cvr, overstatement_assorter A k pm u v us ph cvr with
  | Ok (Fin x), Ok (Fin y) => y <= x
  | Err e, Err e' => e = e'
  | _, _ => False
  end.
Proof. exact phantom_mvr_worst. Qed.
Print Assumptions C08_phantom_mvr_worst.

(* A phantom CVR that is not replaced by a pool mean scores exactly 1/2 whatever it contains and whatever the assorter;
   the overstatement is then 1/2 minus the MVR's score. *)
Theorem C08_phantom_cvr_half :
  forall (A : card -> Q) k pm us mvr cvr,
  cphantom cvr = true -> cvr_uses_pool pm cvr = false ->
  (exists q, cvr_assort A pm cvr = Ok (Fin q) /\ q == 1 # 2)
  /\ ((us && negb (has_contest cvr k))%bool = false ->
      exists o, overstatement A k pm us mvr cvr = Ok (Fin o) /\ o == (1 # 2) - mvr_assort A k us mvr).
Proof. exact phantom_cvr_half. Qed.
Print Assumptions C08_phantom_cvr_half.

(* stated separately, not hidden: a POOLED CVR (phantom or not) scores its pool's mean *)
Theorem C08_pooled_cvr_scores_pool_mean :
  forall (A : card -> Q) d cvr m,
  cpool cvr = true -> lookup (ctally_pool cvr) d = Some m -> cvr_assort A (Some d) cvr = Ok m.
Proof. exact pooled_cvr_scores_pool_mean. Qed.
Print Assumptions C08_pooled_cvr_scores_pool_mean.

(* ---------------------------------------------------------------- non-vacuity *)
Open Scope Z_scope.
(* the configuration of test_make_phantoms with the contests in the order that needs two rounds of creation:
   6 CVRs; measure_1 (id 2, 4 CVRs, bound 5: shortfall 1) before city_council (id 1, 5 CVRs, bound 8: shortfall 3) *)
Definition ex_cvrs : list card :=
  [ mkcard (Orig 1) [1; 2] 1 false 0 false; mkcard (Orig 2) [1; 2] 2 false 0 false; mkcard (Orig 3) [1; 2] 3 false 0 false;
    mkcard (Orig 4) [1] 4 false 0 false; mkcard (Orig 5) [1] 5 false 0 false; mkcard (Orig 6) [2] 6 false 0 false ].
Definition ex_contests : list (Z * option Z) := [(2, Some 5); (1, None)].
Example ex_hyps : NoDup (map fst ex_contests) /\ no_phantoms ex_cvrs /\ bounds_ok_style (Some 8) ex_contests ex_cvrs.
Proof.
  split; [|split].
  - repeat constructor; simpl; intuition congruence.
  - repeat constructor.
  - intros kc [<-|[<-|[]]]; eexists; (split; [reflexivity|vm_compute; congruence]).
Qed.
Example ex_run :
  exists out ks, make_phantoms [(true, Some 8)] ex_contests ex_cvrs 0 false = Ok (out, 3, ks)
    /\ map cid (skipn 6 out) = [Phant 1; Phant 2; Phant 3]
    /\ map ccontests (skipn 6 out) = [[2; 1]; [1]; [1]]
    /\ count_listing 1 out = 8 /\ count_listing 2 out = 5 /\ max_short ks = 3.
Proof. eexists. eexists. vm_compute. repeat split; reflexivity. Qed.
Example ex_nostyle :
  exists out ks, make_phantoms [(false, Some 8)] ex_contests ex_cvrs 0 false = Ok (out, 2, ks) /\ length out = 8%nat.
Proof. eexists. eexists. vm_compute. split; reflexivity. Qed.
Example ex_empty_list :                                        (* no CVR at all: everything is a phantom *)
  exists out ks, make_phantoms [(true, None)] [(1, Some 2)] [] 0 false = Ok (out, 2, ks) /\ count_listing 1 out = 2.
Proof. eexists. eexists. vm_compute. split; reflexivity. Qed.

Open Scope Q_scope.
(* plurality-like assorter on tags: tag 1 = vote for the winner (1), tag 2 = vote for the loser (0), otherwise 1/2 *)
Definition ex_A (c : card) : Q := if Z.eqb (ctag c) 1 then 1 else if Z.eqb (ctag c) 2 then 0 else 1 # 2.
Example ex_A_range : forall c, 0 <= ex_A c /\ ex_A c <= 1.
Proof. intro c. unfold ex_A. destruct (Z.eqb (ctag c) 1); [lra|]. destruct (Z.eqb (ctag c) 2); lra. Qed.
Example ex_pm_finite : pool_means_finite (Some [(1%Z, Fin (3 # 4))]) /\ pool_means_finite None.
Proof.
  split; intros d key m H; [|discriminate]. inversion H; subst. cbn [lookup].
  intro E. destruct (Z.eqb 1 key); [|discriminate]. inversion E; eauto.
Qed.
(* a phantom MVR listing NO contest (as the format modules make it), style off, against a CVR for the winner whose
   manual record shows the loser: B(phantom) = B(mvr) = 0; against a manual record for the winner: 0 < 4/7 *)
Definition valq (r : result Xq) : option Q := match r with Ok (Fin q) => Some (Qred q) | _ => None end.
Example ex_worst :
  let ph := mkcard (Phant 1) [] 0 true 0 false in
  let cvr := mkcard (Orig 1) [7%Z] 1 false 0 false in
  valq (overstatement_assorter ex_A 7 None 1 (1 # 4) false ph cvr) = Some 0
  /\ valq (overstatement_assorter ex_A 7 None 1 (1 # 4) false (mkcard (Orig 1) [7%Z] 2 false 0 false) cvr) = Some 0
  /\ valq (overstatement_assorter ex_A 7 None 1 (1 # 4) false (mkcard (Orig 1) [7%Z] 1 false 0 false) cvr) = Some (4 # 7).
Proof. vm_compute. repeat split; reflexivity. Qed.
Example ex_half :
  valq (overstatement ex_A 7 None true (mkcard (Phant 2) [] 0 true 0 false) (mkcard (Phant 2) [7%Z] 1 true 0 false)) = Some (1 # 2).
Proof. vm_compute. reflexivity. Qed.
