(* NNM_risk_iid_kaplan.v — the IID (finite-support law) risk-limit theorem for Kaplan-Markov and Kaplan-Wald *)
From SV Require Import NNM NNM_machines NNM_ranges NNM_spec NNM_hist NNM_wf NNM_prefix NNM_defs NNM_kaplan
     Prob Prob_iid NNM_risk NNM_risk_inst NNM_risk_iid NNM_risk_iid_inst NNM_mono.
Open Scope Q_scope.

Section KaplanIID.
Variable facq : Q -> Q -> Q -> Q.     (* factor as a function of the observation only (second argument unused) *)
Variable t : Q.
Let em := const_machine 0.
Let eff := fun (e _ : Q) => e.
Notation istep' := (istep facq eff em t).

(* the exact running products after each draw *)
Fixpoint iTs (g : istate em) (xs : list Q) : list Q :=
  match xs with [] => [] | x :: r => i_T em (istep' g x) :: iTs (istep' g x) r end.
Lemma iTs_nth xs : forall g j T, nth_error (iTs g xs) j = Some T ->
  (j < length xs)%nat /\ T = i_T em (fold_left istep' (firstn (S j) xs) g).
Proof.
  induction xs as [|x r IH]; intros g j T H; [destruct j; discriminate|].
  destruct j as [|j]; cbn [iTs nth_error] in H.
  - apply Some_inj in H. split; [simpl; lia|]. now rewrite <- H.
  - destruct (IH (istep' g x) j T H) as [H1 H2]. split; [simpl; lia|]. exact H2.
Qed.
Lemma Forall2_In_l {A B} (P : A -> B -> Prop) l1 l2 a : Forall2 P l1 l2 -> In a l1 ->
  exists j b, nth_error l2 j = Some b /\ P a b.
Proof.
  intro H. induction H as [|x y l1 l2 Hxy _ IH]; intro Hin; [contradiction|].
  destruct Hin as [E|Hin].
  - subst. exists 0%nat, y. split; auto.
  - destruct (IH Hin) as [j [b [H1 H2]]]. exists (S j), b. split; auto.
Qed.
End KaplanIID.

(* ---------------- Kaplan-Wald ---------------- *)
Definition kw_fac (g t : Q) (x _ _ : Q) : Q := (1 - g) * x / t + g.

Lemma kw_hist_is g t xs : forall (s : istate (const_machine 0)),
  xcumprod (Fin (i_T _ s)) (map (fun x => Fin ((1 - g) * x / t + g)) xs)
  = map Fin (iTs (kw_fac g t) t s xs).
Proof.
  induction xs as [|x r IH]; intro s; [reflexivity|].
  cbn [map xcumprod xmul xred iTs]. f_equal. exact (IH (istep (kw_fac g t) (fun e _ => e) (const_machine 0) t s x)).
Qed.

Lemma pvr_le_alpha T alpha : 0 < alpha -> alpha < 1 -> 0 <= T -> xle (pvr (Fin T)) (Fin alpha) = true -> 1 / alpha <= T.
Proof.
  intros Ha Ha1 HT H.
  destruct (Qeq_bool T 0) eqn:E0.
  - rewrite (pvr_zero T E0) in H. cbn in H. apply Qle_bool_iff in H. lra.
  - apply Qeq_bool_false in E0. assert (HT0 : 0 < T) by (destruct (Qle_lt_or_eq _ _ HT); auto; exfalso; apply E0; symmetry; auto).
    rewrite (pvr_pos T HT0) in H. destruct (Qle_bool (1 / T) 1) eqn:E1; cbn in H; apply Qle_bool_iff in H; [|lra].
    apply Qle_shift_div_r; auto. assert (E2 : 1 / T * T == 1) by (field; lra).
    assert (1 / T * T <= alpha * T) by nra. lra.
Qed.

Lemma xeqv_xle_l a b c : xeqv a b -> xle b c = true -> xle a c = true.
Proof.
  destruct a, b, c; simpl; try contradiction; try discriminate; auto.
  intros E H. apply Qle_bool_iff in H. apply Qle_bool_iff. lra.
Qed.
Lemma xeqv_sym a b : xeqv a b -> xeqv b a.
Proof. destruct a, b; simpl; auto. intro H. now symmetry. Qed.

Lemma kw_iTs_nonneg g t xs : 0 < t -> 0 <= g <= 1 -> Forall (fun x => 0 <= x) xs ->
  forall (s : istate (const_machine 0)), 0 <= i_T _ s -> Forall (fun T => 0 <= T) (iTs (kw_fac g t) t s xs).
Proof.
  intros Ht Hg. induction xs as [|x r IH]; intros Hx s Hs; [constructor|]. inversion Hx as [|x0 l0 Hx0 Hr]; subst.
  assert (Hs' : 0 <= i_T _ (istep (kw_fac g t) (fun e _ => e) (const_machine 0) t s x)).
  { unfold istep; cbn [i_T]. rewrite Qred_correct. unfold kw_fac.
    assert (0 <= (1 - g) * x) by nra. assert (0 <= (1 - g) * x / t) by (apply div_nonneg; lra). nra. }
  cbn [iTs]. constructor; auto.
Qed.

(* the four law-free facts the risk-limit theorems need (finite-support laws here, arbitrary laws in NNM_risk_real_inst.v) *)
Lemma kaplan_wald_hyps g ro t u : 0 < t -> 0 <= g <= 1 ->
  (forall x e, kw_fac g t x e t == 1 + (x - t) * ((1 - g) / t))
  /\ (forall (s : istate (const_machine 0)) x, 0 <= x <= u -> 0 <= kw_fac g t x (i_par (fun e _ => e) (const_machine 0) t s) t)
  /\ (forall s : istate (const_machine 0), 0 <= (1 - g) / t)
  /\ (forall a xs h, 0 < a -> a < 1 -> xs <> [] -> Forall (fun x => 0 <= x <= u) xs ->
        In h (fst (kaplan_wald g ro t xs) :: snd (kaplan_wald g ro t xs)) -> xle h (Fin a) = true ->
        exists j, (j < length xs)%nat /\ 1 / a <= Mi (kw_fac g t) (fun e _ => e) (const_machine 0) t (firstn (S j) xs)).
Proof.
  intros Ht Hg. split; [|split; [|split]].
  - intros x e. unfold kw_fac. field. lra.
  - intros s x Hx. unfold kw_fac. assert (0 <= (1 - g) * x) by nra. assert (0 <= (1 - g) * x / t) by (apply div_nonneg; lra). lra.
  - intros s. apply div_nonneg; lra.
  - (* link: a reported value <= alpha forces the exact product >= 1/alpha *)
    intros a xs h Ha' Ha1' Hne Hxr Hin Hle.
    assert (Hx0 : Forall (fun x => 0 <= x) xs) by (eapply Forall_impl; [|exact Hxr]; intros x Hx; cbv beta in *; lra).
    unfold kaplan_wald in Hin. cbv zeta in Hin. cbn [fst snd] in Hin. rewrite kw_absorb_id in Hin.
    pose proof (kw_hist_is g t xs (iinit (const_machine 0))) as EH. cbn [iinit i_T] in EH. rewrite EH in Hin.
    set (Ts := iTs (kw_fac g t) t (iinit (const_machine 0)) xs) in *.
    assert (Hnn : Forall (fun T => 0 <= T) Ts).
    { unfold Ts. apply kw_iTs_nonneg; auto. cbn. lra. }
    assert (Hlen : length Ts = length xs).
    { unfold Ts. generalize (iinit (const_machine 0)). clear. induction xs; intro s; simpl; auto. }
    assert (HneT : Ts <> []) by (intro E; rewrite E in Hlen; destruct xs; simpl in *; congruence).
    assert (Hnnx : Forall nn_term (map Fin Ts)).
    { apply Forall_map. eapply Forall_impl; [|exact Hnn]. intros T HT. right. exists T. auto. }
    assert (HneX : map Fin Ts <> []) by (destruct Ts; [congruence|discriminate]).
    (* whichever reported value it is, it is pvr of some history entry Fin T (up to ==) *)
    assert (Hsome : exists T, In T Ts /\ xle (pvr (Fin T)) (Fin a) = true).
    { destruct Hin as [E|Hin].
      - destruct ro.
        + destruct (xmax_list_nn _ HneX Hnnx) as [HM [HIn _]].
          apply in_map_iff in HIn. destruct HIn as [T [ET HT]]. exists T. split; auto.
          rewrite ET. eapply xeqv_xle_l; [apply xeqv_sym, min1_pvr_idem; exact HM|]. rewrite E. exact Hle.
        + assert (HL : In (xlast (map Fin Ts)) (map Fin Ts)) by (unfold xlast; now apply last_In).
          pose proof HL as HL'. apply in_map_iff in HL. destruct HL as [T [ET HT]]. exists T. split; auto.
          rewrite ET. eapply xeqv_xle_l; [apply xeqv_sym, min1_pvr_idem; rewrite Forall_forall in Hnnx; now apply Hnnx|].
          rewrite E. exact Hle.
      - rewrite map_map in Hin. apply in_map_iff in Hin. destruct Hin as [T [ET HT]]. exists T. split; auto.
        fold (pvr (Fin T)) in ET. now rewrite ET. }
    destruct Hsome as [T [HT HleT]].
    apply In_nth_error in HT. destruct HT as [j Hj].
    destruct (iTs_nth (kw_fac g t) t xs _ j T Hj) as [Hjl ET].
    exists j. split; auto. unfold Mi, ifold. rewrite <- ET.
    apply pvr_le_alpha; auto. rewrite Forall_forall in Hnn. apply Hnn. eapply nth_error_In; eauto.
Qed.
Theorem kaplan_wald_iid_risk_limit g ro t u law alpha n :
  0 < t -> 0 <= g <= 1 -> null_law u t law -> 0 < alpha -> alpha < 1 ->
  lsum (map (fun s => weight s * ind (rejectsb (kaplan_wald g ro t) alpha (values s))) (seqs law n)) <= alpha.
Proof.
  intros Ht Hg Hlaw Ha Ha1. destruct (kaplan_wald_hyps g ro t u Ht Hg) as [H1 [H2 [H3 H4]]].
  apply (iid_risk_limit (kw_fac g t) (fun _ _ => (1 - g) / t) (fun e _ => e) (const_machine 0) t u); auto.
Qed.

(* ---------------- Kaplan-Markov ---------------- *)
Definition km_fac (g t : Q) (x _ _ : Q) : Q := (x + g) / (t + g).
Definition km_inv (acc : Xq) (T : Q) : Prop := acc = PInf \/ exists q, acc = Fin q /\ 0 < q /\ q * T == 1.

Lemma km_hist_inv g t xs : 0 < t + g -> Forall (fun x => 0 <= x + g) xs ->
  forall (s : istate (const_machine 0)) acc, km_inv acc (i_T _ s) ->
  Forall2 km_inv (xcumprod acc (map (fun x => xdiv (Fin (t + g)) (Fin (x + g))) xs)) (iTs (km_fac g t) t s xs).
Proof.
  intros Htg. induction xs as [|x r IH]; intros Hx s acc Hinv; [constructor|]. inversion Hx as [|x0 l0 Hx0 Hr]; subst.
  cbn [map xcumprod iTs].
  set (s' := istep (km_fac g t) (fun e _ => e) (const_machine 0) t s x).
  assert (ET : i_T _ s' == i_T _ s * ((x + g) / (t + g))) by (unfold s', istep; cbn [i_T]; rewrite Qred_correct; reflexivity).
  assert (Hinv' : km_inv (xred (xmul acc (xdiv (Fin (t + g)) (Fin (x + g))))) (i_T _ s')).
  { cbn [xdiv]. destruct (Qeq_bool (x + g) 0) eqn:E0.
    - rewrite (inf_of_sign_pos (t + g) Htg). left.
      destruct Hinv as [E|[q [E [Hq _]]]]; subst acc; cbn [xmul xsgn]; [reflexivity|].
      rewrite inf_of_sign_pos2 by auto. reflexivity.
    - apply Qeq_bool_false in E0.
      assert (Hxg : 0 < x + g) by (destruct (Qle_lt_or_eq _ _ Hx0); auto; exfalso; apply E0; symmetry; auto).
      assert (Hf : 0 < (t + g) / (x + g)) by (apply div_pos; auto).
      destruct Hinv as [E|[q [E [Hq HqT]]]]; subst acc; cbn [xmul xsgn xred].
      + left. rewrite inf_of_sign_pos1 by auto. reflexivity.
      + right. exists (Qred (q * ((t + g) / (x + g)))). split; auto. rewrite Qred_correct. split; [nra|].
        rewrite ET. assert (E : q * ((t + g) / (x + g)) * (i_T _ s * ((x + g) / (t + g))) == q * i_T _ s) by (field; split; lra).
        rewrite E. exact HqT. }
  constructor; auto.
Qed.

Lemma kaplan_markov_hyps g ro t u : 0 < t -> 0 <= g ->
  (forall x e, km_fac g t x e t == 1 + (x - t) * (1 / (t + g)))
  /\ (forall (s : istate (const_machine 0)) x, 0 <= x <= u -> 0 <= km_fac g t x (i_par (fun e _ => e) (const_machine 0) t s) t)
  /\ (forall s : istate (const_machine 0), 0 <= 1 / (t + g))
  /\ (forall a xs h, 0 < a -> a < 1 -> xs <> [] -> Forall (fun x => 0 <= x <= u) xs ->
        In h (fst (kaplan_markov g ro t xs) :: snd (kaplan_markov g ro t xs)) -> xle h (Fin a) = true ->
        exists j, (j < length xs)%nat /\ 1 / a <= Mi (km_fac g t) (fun e _ => e) (const_machine 0) t (firstn (S j) xs)).
Proof.
  intros Ht Hg. split; [|split; [|split]].
  - intros x e. unfold km_fac. field. lra.
  - intros s x Hx. unfold km_fac. apply div_nonneg; lra.
  - intros s. apply div_nonneg; lra.
  - intros a xs h Ha' Ha1' Hne Hxr Hin Hle.
    assert (Hxg : Forall (fun x => 0 <= x + g) xs) by (eapply Forall_impl; [|exact Hxr]; intros x Hx; cbv beta in *; lra).
    unfold kaplan_markov in Hin. cbv zeta in Hin. cbn [fst snd] in Hin.
    rewrite (km_absorb_id g t xs) in Hin by (auto; lra).
    set (hist := xcumprod (Fin 1) (map (fun x => xdiv (Fin (t + g)) (Fin (x + g))) xs)) in *.
    assert (Hinv : Forall2 km_inv hist (iTs (km_fac g t) t (iinit (const_machine 0)) xs)).
    { apply km_hist_inv; auto; [lra|]. right. exists 1. cbn. repeat split; lra. }
    assert (Hgood : Forall good_term hist).
    { clear -Hinv. induction Hinv as [|a b l1 l2 H _ IH]; constructor; auto.
      destruct H as [E|[q [E [Hq _]]]]; [now left|right; exists q; auto]. }
    assert (Hnn : Forall nn_term hist) by (eapply Forall_impl; [|exact Hgood]; apply good_nn).
    assert (HneH : hist <> []).
    { unfold hist. destruct xs; [congruence|]. cbn. discriminate. }
    assert (Hsome : exists hh, In hh hist /\ xle (cap1 hh) (Fin a) = true).
    { rewrite Forall_forall in Hgood. destruct Hin as [E|Hin].
      - destruct ro.
        + destruct (xmin_list_nn _ HneH Hnn) as [_ [HIn _]]. exists (xmin_list hist). split; auto.
          eapply xeqv_xle_l; [apply xeqv_sym, min1_cap1; now apply Hgood|]. rewrite E. exact Hle.
        + assert (HL : In (xlast hist) hist) by (unfold xlast; now apply last_In). exists (xlast hist). split; auto.
          eapply xeqv_xle_l; [apply xeqv_sym, min1_cap1; now apply Hgood|]. rewrite E. exact Hle.
      - apply in_map_iff in Hin. destruct Hin as [hh [E HIn]]. exists hh. split; auto. fold (cap1 hh) in E. now rewrite E. }
    destruct Hsome as [hh [Hhh Hcap]].
    destruct (Forall2_In_l km_inv _ _ hh Hinv Hhh) as [j [T [HjT Hrel]]].
    destruct (iTs_nth (km_fac g t) t xs _ j T HjT) as [Hjl ET].
    exists j. split; auto. unfold Mi, ifold. rewrite <- ET.
    destruct Hrel as [E|[q [E [Hq HqT]]]]; subst hh.
    + exfalso. cbn in Hcap. apply Qle_bool_iff in Hcap. lra.
    + unfold cap1 in Hcap. cbn [xmin_np xle] in Hcap.
      assert (Hqa : q <= a).
      { destruct (Qle_bool q 1) eqn:E1; cbn [xle] in Hcap; apply Qle_bool_iff in Hcap; auto. lra. }
      assert (ETq : T == 1 / q) by (field_simplify_eq; lra).
      rewrite ETq. apply Qle_shift_div_l; auto. assert (E2 : 1 / a * q == q / a) by (field; lra). rewrite E2.
      apply Qle_shift_div_r; lra.
Qed.
Theorem kaplan_markov_iid_risk_limit g ro t u law alpha n :
  0 < t -> 0 <= g -> null_law u t law -> 0 < alpha -> alpha < 1 ->
  lsum (map (fun s => weight s * ind (rejectsb (kaplan_markov g ro t) alpha (values s))) (seqs law n)) <= alpha.
Proof.
  intros Ht Hg Hlaw Ha Ha1. destruct (kaplan_markov_hyps g ro t u Ht Hg) as [H1 [H2 [H3 H4]]].
  apply (iid_risk_limit (km_fac g t) (fun _ _ => 1 / (t + g)) (fun e _ => e) (const_machine 0) t u); auto.
Qed.
