(* NNM_kaplan.v — C11 for Kaplan-Kolmogorov (finite N), Kaplan-Markov and Kaplan-Wald: every reported value is a
   rational in [0,1] (never NaN), one per observation; with random_order the overall value is the smallest entry,
   otherwise the last. *)
From SV Require Import NNM NNM_machines NNM_ranges NNM_spec NNM_hist NNM_wf NNM_prefix.
Open Scope Q_scope.

Definition nn_term (tm : Xq) : Prop := tm = PInf \/ exists q, tm = Fin q /\ 0 <= q.
Definition xeqv (a b : Xq) : Prop :=
  match a, b with
  | Fin p, Fin q => p == q
  | PInf, PInf | NInf, NInf | NaN, NaN => True
  | _, _ => False
  end.
Lemma xeqv_refl a : xeqv a a. Proof. destruct a; simpl; auto. reflexivity. Qed.

(* reported value of a term: min(1/term, 1) *)
Definition pvr (tm : Xq) : Xq := xmin_np (xinv tm) (Fin 1).

Lemma pvr_unit tm : nn_term tm -> unit_x (pvr tm).
Proof.
  intros [E|[q [E Hq]]]; subst; unfold pvr, xinv; cbn [xdiv].
  - exists 0. cbn. split; auto. lra.
  - destruct (Qeq_bool q 0) eqn:E0.
    + cbn. exists 1. split; auto. lra.
    + apply Qeq_bool_false in E0. assert (0 < q) by (destruct (Qle_lt_or_eq _ _ Hq); auto; exfalso; apply E0; symmetry; auto).
      cbn [xmin_np xle]. destruct (Qle_bool (1 / q) 1) eqn:E1.
      * exists (1 / q). split; auto. apply Qle_bool_iff in E1. split; auto. apply div_nonneg; lra.
      * exists 1. split; auto. lra.
Qed.

(* order facts on nonnegative terms *)
Lemma nn_xle_refl a : nn_term a -> xle a a = true.
Proof. intros [E|[q [E _]]]; subst; cbn; auto. apply Qle_bool_iff. lra. Qed.
Lemma nn_xle_trans a b c : nn_term a -> nn_term b -> nn_term c -> xle a b = true -> xle b c = true -> xle a c = true.
Proof.
  intros [Ea|[p [Ea _]]] [Eb|[q [Eb _]]] [Ec|[r [Ec _]]]; subst; cbn; auto; try discriminate.
  intros H1 H2. apply Qle_bool_iff in H1. apply Qle_bool_iff in H2. apply Qle_bool_iff. lra.
Qed.
Lemma nn_xmax a b : nn_term a -> nn_term b ->
  (xmax_np a b = a \/ xmax_np a b = b) /\ xle a (xmax_np a b) = true /\ xle b (xmax_np a b) = true.
Proof.
  intros Ha Hb. pose proof (nn_xle_refl a Ha). pose proof (nn_xle_refl b Hb).
  destruct Ha as [Ea|[p [Ea Hp]]]; destruct Hb as [Eb|[q [Eb Hq]]]; subst; unfold xmax_np; cbn; auto.
  destruct (Qle_bool p q) eqn:E; cbn.
  - repeat split; auto.
  - apply Qle_bool_false in E. repeat split; auto; apply Qle_bool_iff; lra.
Qed.
Lemma nn_xmin a b : nn_term a -> nn_term b ->
  (xmin_np a b = a \/ xmin_np a b = b) /\ xle (xmin_np a b) a = true /\ xle (xmin_np a b) b = true.
Proof.
  intros Ha Hb. pose proof (nn_xle_refl a Ha). pose proof (nn_xle_refl b Hb).
  destruct Ha as [Ea|[p [Ea Hp]]]; destruct Hb as [Eb|[q [Eb Hq]]]; subst; unfold xmin_np; cbn; auto.
  destruct (Qle_bool p q) eqn:E; cbn.
  - repeat split; auto.
  - apply Qle_bool_false in E. repeat split; auto; apply Qle_bool_iff; lra.
Qed.

Lemma fold_sel (op : Xq -> Xq -> Xq) (below : bool) r : forall a,
  (forall x y, nn_term x -> nn_term y -> (op x y = x \/ op x y = y)
       /\ (if below then xle (op x y) x = true /\ xle (op x y) y = true else xle x (op x y) = true /\ xle y (op x y) = true)) ->
  nn_term a -> Forall nn_term r ->
  let M := fold_left op r a in
  nn_term M /\ In M (a :: r) /\ Forall (fun b => if below then xle M b = true else xle b M = true) (a :: r).
Proof.
  intros a Hop. revert a. induction r as [|b r IH]; intros a Ha Hr; cbn [fold_left].
  - split; auto. split; [now left|]. constructor; auto. destruct below; now apply nn_xle_refl.
  - inversion Hr as [|b0 r0 Hb Hr']; subst.
    destruct (Hop a b Ha Hb) as [Hsel Hord].
    assert (Hg : nn_term (op a b)) by (destruct Hsel as [E|E]; rewrite E; auto).
    destruct (IH (op a b) Hg Hr') as [HM [HIn HAll]].
    split; auto. split.
    + destruct HIn as [E|HIn]; [|right; right; auto]. destruct Hsel as [E'|E']; [left|right; left]; congruence.
    + inversion HAll as [|c0 r0 HcM HAll']; subst.
      destruct below.
      * destruct Hord as [H1 H2].
        constructor; [eapply nn_xle_trans; [| | |exact HcM|exact H1]; auto|].
        constructor; [eapply nn_xle_trans; [| | |exact HcM|exact H2]; auto|]. auto.
      * destruct Hord as [H1 H2].
        constructor; [eapply nn_xle_trans; [| | |exact H1|exact HcM]; auto|].
        constructor; [eapply nn_xle_trans; [| | |exact H2|exact HcM]; auto|]. auto.
Qed.

Lemma xmax_list_nn l : l <> [] -> Forall nn_term l ->
  nn_term (xmax_list l) /\ In (xmax_list l) l /\ Forall (fun b => xle b (xmax_list l) = true) l.
Proof.
  intros Hne H. destruct l as [|a r]; [congruence|]. inversion H; subst.
  apply (fold_sel xmax_np false r a); auto. intros x y Hx Hy. destruct (nn_xmax x y Hx Hy) as [A [B C']]. auto.
Qed.
Lemma xmin_list_nn l : l <> [] -> Forall nn_term l ->
  nn_term (xmin_list l) /\ In (xmin_list l) l /\ Forall (fun b => xle (xmin_list l) b = true) l.
Proof.
  intros Hne H. destruct l as [|a r]; [congruence|]. inversion H; subst.
  apply (fold_sel xmin_np true r a); auto. intros x y Hx Hy. destruct (nn_xmin x y Hx Hy) as [A [B C']]. auto.
Qed.
Lemma last_In {A} (l : list A) d : l <> [] -> In (last l d) l.
Proof. induction l as [|a r IH]; intro H; [congruence|]. destruct r; [now left|]. right. apply IH. discriminate. Qed.

(* pvr is antitone on nonnegative terms *)
Lemma pvr_zero p : Qeq_bool p 0 = true -> pvr (Fin p) = Fin 1.
Proof. intro E. unfold pvr, xinv. cbn [xdiv]. rewrite E. reflexivity. Qed.
Lemma pvr_pos q : 0 < q -> pvr (Fin q) = if Qle_bool (1 / q) 1 then Fin (1 / q) else Fin 1.
Proof.
  intro H. unfold pvr, xinv. cbn [xdiv].
  assert (E : Qeq_bool q 0 = false) by (apply Qeq_bool_false; lra). rewrite E. reflexivity.
Qed.
Lemma pvr_antitone a b : nn_term a -> nn_term b -> xle a b = true -> xle (pvr b) (pvr a) = true.
Proof.
  intros Ha Hb Hab.
  destruct (pvr_unit b Hb) as [pb [Epb Hpb]].
  destruct Ha as [Ea|[p [Ea Hp]]]; destruct Hb as [Eb|[q [Eb Hq]]]; subst a b.
  - cbn. reflexivity.
  - cbn in Hab. discriminate.
  - destruct (pvr_unit (Fin p)) as [pa [Epa Hpa]]; [right; exists p; auto|].
    rewrite Epa. change (pvr PInf) with (Fin 0). cbn. apply Qle_bool_iff. lra.
  - cbn in Hab. apply Qle_bool_iff in Hab.
    destruct (Qeq_bool p 0) eqn:Ep0.
    + rewrite (pvr_zero p Ep0), Epb. cbn. apply Qle_bool_iff. lra.
    + apply Qeq_bool_false in Ep0.
      assert (Hp0 : 0 < p) by (destruct (Qle_lt_or_eq _ _ Hp); auto; exfalso; apply Ep0; symmetry; auto).
      assert (Hq0 : 0 < q) by lra.
      rewrite (pvr_pos p Hp0), (pvr_pos q Hq0).
      assert (Hpq : 1 / q <= 1 / p).
      { apply Qle_shift_div_l; auto. assert (E : 1 / q * p == p / q) by (field; lra). rewrite E.
        apply Qle_shift_div_r; lra. }
      destruct (Qle_bool (1 / q) 1) eqn:E1; destruct (Qle_bool (1 / p) 1) eqn:E2; cbn [xle]; try reflexivity;
        apply Qle_bool_iff;
        try apply Qle_bool_iff in E1; try apply Qle_bool_iff in E2;
        try apply Qle_bool_false in E1; try apply Qle_bool_false in E2; lra.
Qed.

Definition kaplan_wf (ro : bool) (r : Xq * list Xq) (n : nat) : Prop :=
  length (snd r) = n /\ Forall unit_x (snd r) /\ unit_x (fst r)
  /\ (if ro then (exists h, In h (snd r) /\ xeqv (fst r) h) /\ Forall (fun h => xle (fst r) h = true) (snd r)
      else xeqv (fst r) (last (snd r) NaN)).


(* ---------------- Kaplan-Wald ---------------- *)
Lemma xcumprod_fin_nonneg l : forall acc, 0 <= acc -> Forall (fun q => 0 <= q) l ->
  Forall nn_term (xcumprod (Fin acc) (map Fin l)).
Proof.
  induction l as [|a l IH]; intros acc Ha Hl; [constructor|]. inversion Hl; subst.
  cbn [map xcumprod xmul xred]. constructor.
  - right. exists (Qred (acc * a)). split; auto. rewrite Qred_correct. nra.
  - apply IH; auto. rewrite Qred_correct. nra.
Qed.

Lemma min1_pvr_idem tm : nn_term tm -> xeqv (xmin_np (Fin 1) (xinv tm)) (pvr tm).
Proof.
  intros [E|[q [E Hq]]]; subst; unfold pvr, xinv; cbn [xdiv].
  - cbn. reflexivity.
  - destruct (Qeq_bool q 0) eqn:E0; [cbn; reflexivity|].
    cbn [xmin_np xle]. destruct (Qle_bool 1 (1 / q)) eqn:E1; destruct (Qle_bool (1 / q) 1) eqn:E2; cbn; try reflexivity.
    + apply Qle_bool_iff in E1. apply Qle_bool_iff in E2. lra.
    + apply Qle_bool_false in E1. apply Qle_bool_false in E2. lra.
Qed.

Lemma map_length_eq {A B} (f : A -> B) l : length (map f l) = length l. Proof. apply map_length. Qed.

Theorem kaplan_wald_wellformed g ro t xs :
  0 < t -> 0 <= g <= 1 -> xs <> [] -> Forall (fun x => 0 <= x) xs ->
  kaplan_wf ro (kaplan_wald g ro t xs) (length xs).
Proof.
  intros Ht Hg Hne Hx. unfold kaplan_wald. cbv zeta.
  set (fs := map (fun x => (1 - g) * x / t + g) xs).
  assert (Efs : map (fun x => Fin ((1 - g) * x / t + g)) xs = map Fin fs) by (unfold fs; now rewrite map_map).
  rewrite Efs. rewrite (absorb_zero_fin fs 1 false) by discriminate.
  set (hist := xcumprod (Fin 1) (map Fin fs)).
  assert (Hnn : Forall nn_term hist).
  { apply xcumprod_fin_nonneg; [lra|]. unfold fs. apply Forall_map. eapply Forall_impl; [|exact Hx].
    intros x H0. cbv beta in H0 |- *. assert (0 <= (1 - g) * x) by nra. assert (0 <= (1 - g) * x / t) by (apply div_nonneg; lra). lra. }
  assert (Hlen : length hist = length xs) by (unfold hist, fs; now rewrite xcumprod_length, !map_length).
  assert (Hne' : hist <> []) by (intro E; rewrite E in Hlen; destruct xs; simpl in *; congruence).
  fold pvr. unfold kaplan_wf; cbn [fst snd].
  split; [now rewrite map_length|].
  split; [apply Forall_map; eapply Forall_impl; [|exact Hnn]; apply pvr_unit|].
  destruct ro.
  - destruct (xmax_list_nn hist Hne' Hnn) as [HM [HIn HAll]].
    pose proof (min1_pvr_idem _ HM) as Heq.
    destruct (pvr_unit _ HM) as [pm [Epm Hpm]].
    split.
    + rewrite Epm in Heq. destruct (xmin_np (Fin 1) (xinv (xmax_list hist))) as [q| | |]; try contradiction.
      exists q. split; auto. simpl in Heq. lra.
    + split.
      * exists (pvr (xmax_list hist)). split; [now apply in_map|exact Heq].
      * apply Forall_map. rewrite Forall_forall in *. intros b Hb.
        pose proof (pvr_antitone b (xmax_list hist) (Hnn b Hb) HM (HAll b Hb)) as Hle.
        rewrite Epm in Heq, Hle. destruct (pvr_unit b (Hnn b Hb)) as [pb [Epb Hpb]]. rewrite Epb in *.
        destruct (xmin_np (Fin 1) (xinv (xmax_list hist))) as [q| | |]; try contradiction.
        simpl in Heq. cbn in Hle |- *. apply Qle_bool_iff in Hle. apply Qle_bool_iff. lra.
  - assert (HL : nn_term (xlast hist)).
    { rewrite Forall_forall in Hnn. apply Hnn. unfold xlast. now apply last_In. }
    pose proof (min1_pvr_idem _ HL) as Heq. destruct (pvr_unit _ HL) as [pm [Epm Hpm]].
    split.
    + rewrite Epm in Heq. destruct (xmin_np (Fin 1) (xinv (xlast hist))) as [q| | |]; try contradiction.
      exists q. split; auto. simpl in Heq. lra.
    + assert (EL : last (map pvr hist) NaN = pvr (xlast hist)).
      { unfold xlast. clear -Hne'. induction hist as [|a r IH]; [congruence|]. destruct r; [reflexivity|].
        cbn [map]. cbn [map] in IH. change (last (pvr a :: pvr x :: map pvr r) NaN) with (last (pvr x :: map pvr r) NaN).
        change (last (a :: x :: r) NaN) with (last (x :: r) NaN). apply IH. discriminate. }
      rewrite EL. exact Heq.
Qed.

(* ---------------- Kaplan-Markov ---------------- *)
Definition cap1 (h : Xq) : Xq := xmin_np h (Fin 1).
Lemma good_nn tm : good_term tm -> nn_term tm.
Proof. intros [E|[q [E H]]]; [now left|right; exists q; split; auto; lra]. Qed.
Lemma inf_of_sign_pos q : 0 < q -> inf_of_sign (Qsign q) = PInf.
Proof. destruct q as [n d]. unfold Qlt, Qsign; simpl. intro H. destruct n; try lia. reflexivity. Qed.
Lemma inf_of_sign_pos1 q : 0 < q -> inf_of_sign (1 * Qsign q) = PInf.
Proof. destruct q as [n d]. unfold Qlt, Qsign; simpl. intro H. destruct n; try lia. reflexivity. Qed.
Lemma inf_of_sign_pos2 q : 0 < q -> inf_of_sign (Qsign q * 1) = PInf.
Proof. destruct q as [n d]. unfold Qlt, Qsign; simpl. intro H. destruct n; try lia. reflexivity. Qed.
Lemma good_xmul a b : good_term a -> good_term b -> good_term (xred (xmul a b)).
Proof.
  intros [Ea|[p [Ea Hp]]] [Eb|[q [Eb Hq]]]; subst; cbn [xmul xred xsgn].
  - now left.
  - left. rewrite inf_of_sign_pos1 by auto. reflexivity.
  - left. rewrite inf_of_sign_pos2 by auto. reflexivity.
  - right. exists (Qred (p * q)). split; auto. rewrite Qred_correct. nra.
Qed.
Lemma xcumprod_good l : forall acc, good_term acc -> Forall good_term l -> Forall good_term (xcumprod acc l).
Proof.
  induction l as [|a l IH]; intros acc Ha Hl; [constructor|]. inversion Hl; subst.
  cbn [xcumprod]. constructor; [now apply good_xmul|]. apply IH; auto. now apply good_xmul.
Qed.
(* the absorbing rule of kaplan_markov (p_history[np.cumsum(np.isinf(factors)) > 0] = np.inf) is invisible on an
   exact product of positive or infinite factors: once a factor is +inf the product is +inf *)
Lemma xmul_pinf_l b : good_term b -> xred (xmul PInf b) = PInf.
Proof. intros [Eb|[q [Eb Hq]]]; subst; cbn [xmul xred xsgn]; [reflexivity|]. now rewrite inf_of_sign_pos1. Qed.
Lemma xmul_pinf_r a : good_term a -> xred (xmul a PInf) = PInf.
Proof. intros [Ea|[p [Ea Hp]]]; subst; cbn [xmul xred xsgn]; [reflexivity|]. now rewrite inf_of_sign_pos2. Qed.
Lemma good_inf_is_pinf f : good_term f -> xis_inf f = true -> f = PInf.
Proof. intros [E|[q [E _]]] H; subst; [reflexivity|discriminate]. Qed.
Lemma absorb_inf_good : forall fs acc seen, good_term acc -> Forall good_term fs -> (seen = true -> acc = PInf) ->
  absorb xis_inf PInf seen fs (xcumprod acc fs) = xcumprod acc fs.
Proof.
  induction fs as [|f fr IH]; intros acc seen Ha Hf Hs; [reflexivity|]. inversion Hf as [|f0 l0 Hf0 Hfr]; subst.
  cbn [xcumprod absorb].
  assert (E : seen || xis_inf f = true -> xred (xmul acc f) = PInf).
  { intro H. destruct seen; cbn [orb] in H.
    - rewrite (Hs eq_refl). now apply xmul_pinf_l.
    - rewrite (good_inf_is_pinf f Hf0 H). now apply xmul_pinf_r. }
  f_equal.
  - destruct (seen || xis_inf f) eqn:Es; [now rewrite E|reflexivity].
  - apply IH; auto. now apply good_xmul.
Qed.
Lemma km_factors_good g t xs : 0 < t + g -> Forall (fun x => 0 <= x + g) xs ->
  Forall good_term (map (fun x => xdiv (Fin (t + g)) (Fin (x + g))) xs).
Proof.
  intros Htg Hx. apply Forall_map. eapply Forall_impl; [|exact Hx]. intros x H0. cbv beta in H0 |- *. cbn [xdiv].
  destruct (Qeq_bool (x + g) 0) eqn:E.
  - left. apply inf_of_sign_pos. lra.
  - right. exists ((t + g) / (x + g)). split; auto. apply Qeq_bool_false in E.
    apply div_pos; [lra|]. destruct (Qle_lt_or_eq 0 (x + g)); [lra|auto|]. exfalso. apply E. symmetry. auto.
Qed.
Lemma km_absorb_id g t xs : 0 < t + g -> Forall (fun x => 0 <= x + g) xs ->
  absorb xis_inf PInf false (map (fun x => xdiv (Fin (t + g)) (Fin (x + g))) xs)
         (xcumprod (Fin 1) (map (fun x => xdiv (Fin (t + g)) (Fin (x + g))) xs))
  = xcumprod (Fin 1) (map (fun x => xdiv (Fin (t + g)) (Fin (x + g))) xs).
Proof.
  intros Htg Hx. apply absorb_inf_good; [right; exists 1; split; auto; lra | now apply km_factors_good | discriminate].
Qed.
Lemma kw_absorb_id g t xs :
  absorb xis_zero (Fin 0) false (map (fun x => Fin ((1 - g) * x / t + g)) xs)
         (xcumprod (Fin 1) (map (fun x => Fin ((1 - g) * x / t + g)) xs))
  = xcumprod (Fin 1) (map (fun x => Fin ((1 - g) * x / t + g)) xs).
Proof.
  assert (Efs : map (fun x => Fin ((1 - g) * x / t + g)) xs = map Fin (map (fun x => (1 - g) * x / t + g) xs))
    by now rewrite map_map.
  rewrite Efs. apply absorb_zero_fin. discriminate.
Qed.
Lemma cap1_unit h : good_term h -> unit_x (cap1 h).
Proof.
  intros [E|[q [E Hq]]]; subst; unfold cap1; cbn.
  - exists 1. split; auto. lra.
  - destruct (Qle_bool q 1) eqn:E1.
    + exists q. apply Qle_bool_iff in E1. split; auto. lra.
    + exists 1. split; auto. lra.
Qed.
Ltac qb_hyps :=
  repeat match goal with
  | H : Qle_bool _ _ = true |- _ => apply Qle_bool_iff in H
  | H : Qle_bool _ _ = false |- _ => apply Qle_bool_false in H
  end.
Lemma cap1_mono a b : good_term a -> good_term b -> xle a b = true -> xle (cap1 a) (cap1 b) = true.
Proof.
  intros [Ea|[p [Ea Hp]]] [Eb|[q [Eb Hq]]] H; subst; unfold cap1; cbn in *; try discriminate; try reflexivity.
  - destruct (Qle_bool p 1) eqn:E1; cbn; try reflexivity; apply Qle_bool_iff; qb_hyps; lra.
  - destruct (Qle_bool p 1) eqn:E1; destruct (Qle_bool q 1) eqn:E2; cbn; try reflexivity; apply Qle_bool_iff; qb_hyps; lra.
Qed.
Lemma min1_cap1 h : good_term h -> xeqv (xmin_np (Fin 1) h) (cap1 h).
Proof.
  intros [E|[q [E Hq]]]; subst; unfold cap1; cbn; [reflexivity|].
  destruct (Qle_bool 1 q) eqn:E1; destruct (Qle_bool q 1) eqn:E2; cbn; try reflexivity.
  - apply Qle_bool_iff in E1. apply Qle_bool_iff in E2. lra.
  - apply Qle_bool_false in E1. apply Qle_bool_false in E2. lra.
Qed.
Lemma last_map {A B} (f : A -> B) l d d' : l <> [] -> last (map f l) d' = f (last l d).
Proof.
  induction l as [|a r IH]; intro H; [congruence|]. destruct r as [|b r]; [reflexivity|].
  change (last (map f (a :: b :: r)) d') with (last (map f (b :: r)) d').
  change (last (a :: b :: r) d) with (last (b :: r) d). apply IH. discriminate.
Qed.

Theorem kaplan_markov_wellformed g ro t xs :
  0 < t -> 0 <= g -> xs <> [] -> Forall (fun x => 0 <= x) xs ->
  kaplan_wf ro (kaplan_markov g ro t xs) (length xs).
Proof.
  intros Ht Hg Hne Hx. unfold kaplan_markov. cbv zeta.
  assert (Hfs : Forall good_term (map (fun x => xdiv (Fin (t + g)) (Fin (x + g))) xs)).
  { apply Forall_map. eapply Forall_impl; [|exact Hx]. intros x H0. cbv beta in H0 |- *. cbn [xdiv].
    destruct (Qeq_bool (x + g) 0) eqn:E.
    - left. apply inf_of_sign_pos. lra.
    - right. exists ((t + g) / (x + g)). split; auto. apply Qeq_bool_false in E.
      apply div_pos; [lra|]. destruct (Qle_lt_or_eq 0 (x + g)); [lra|auto|]. exfalso. apply E. symmetry. auto. }
  rewrite (absorb_inf_good _ (Fin 1) false) by (auto; try discriminate; right; exists 1; split; auto; lra).
  set (hist := xcumprod (Fin 1) (map (fun x => xdiv (Fin (t + g)) (Fin (x + g))) xs)).
  assert (Hgood : Forall good_term hist).
  { apply xcumprod_good; [right; exists 1; split; auto; lra|exact Hfs]. }
  assert (Hnn : Forall nn_term hist) by (eapply Forall_impl; [|exact Hgood]; apply good_nn).
  assert (Hlen : length hist = length xs) by (unfold hist; now rewrite xcumprod_length, map_length).
  assert (Hne' : hist <> []) by (intro E; rewrite E in Hlen; destruct xs; simpl in *; congruence).
  fold cap1. unfold kaplan_wf; cbn [fst snd].
  split; [now rewrite map_length|].
  split; [apply Forall_map; eapply Forall_impl; [|exact Hgood]; apply cap1_unit|].
  rewrite Forall_forall in Hgood.
  destruct ro.
  - destruct (xmin_list_nn hist Hne' Hnn) as [HM [HIn HAll]].
    pose proof (Hgood _ HIn) as HMg.
    pose proof (min1_cap1 _ HMg) as Heq. destruct (cap1_unit _ HMg) as [pm [Epm Hpm]].
    split.
    + rewrite Epm in Heq. destruct (xmin_np (Fin 1) (xmin_list hist)) as [q| | |]; try contradiction.
      exists q. split; auto. simpl in Heq. lra.
    + split.
      * exists (cap1 (xmin_list hist)). split; [now apply in_map|exact Heq].
      * apply Forall_map. rewrite Forall_forall in *. intros b Hb.
        pose proof (cap1_mono (xmin_list hist) b HMg (Hgood b Hb) (HAll b Hb)) as Hle.
        rewrite Epm in Heq, Hle. destruct (cap1_unit b (Hgood b Hb)) as [pb [Epb Hpb]]. rewrite Epb in *.
        destruct (xmin_np (Fin 1) (xmin_list hist)) as [q| | |]; try contradiction.
        simpl in Heq. cbn in Hle |- *. apply Qle_bool_iff in Hle. apply Qle_bool_iff. lra.
  - assert (HL : good_term (xlast hist)) by (apply Hgood; unfold xlast; now apply last_In).
    pose proof (min1_cap1 _ HL) as Heq. destruct (cap1_unit _ HL) as [pm [Epm Hpm]].
    split.
    + rewrite Epm in Heq. destruct (xmin_np (Fin 1) (xlast hist)) as [q| | |]; try contradiction.
      exists q. split; auto. simpl in Heq. lra.
    + rewrite (last_map cap1 hist NaN NaN Hne'). exact Heq.
Qed.

(* ---------------- Kaplan-Kolmogorov (finite N, repaired) ---------------- *)
Definition kk_terms_from (n : Z) (t' : Q) (s : Q * Z) (seen : bool) (acc : Xq) (xgs : list Q) : list Xq :=
  let ms := mscan (mu_out (Some n) t') sj_step s xgs in
  let rs := map2 kk_ratio xgs ms in
  map3 kk_override xgs ms (absorb xis_zero (Fin 0) seen rs (xcumprod acc rs)).

Lemma nn_absorbed (b : bool) tm : nn_term tm -> nn_term (if b then Fin 0 else tm).
Proof. intro H. destruct b; auto. right. exists 0. split; auto. lra. Qed.

Lemma kk_terms_nn n t' xgs : forall s seen acc,
  Forall (fun x => 0 <= x) xgs ->
  (snd s + Z.of_nat (length xgs) - 1 <= n)%Z ->
  ((exists q, acc = Fin q /\ 0 <= q) \/ qz n * t' - fst s < 0) ->
  Forall nn_term (kk_terms_from n t' s seen acc xgs).
Proof.
  induction xgs as [|x xr IH]; intros s seen acc Hx HN Hst; [constructor|].
  inversion Hx as [|x0 l0 Hx0 Hxr]; subst.
  unfold kk_terms_from. cbn [mscan map2 xcumprod absorb map3].
  change (mu_out (Some n) t' s) with (mu_at (Some n) t' (fst s) (snd s)).
  set (m := mu_at (Some n) t' (fst s) (snd s)).
  assert (Hjn : (snd s <= n)%Z) by (cbn [length] in HN; lia).
  destruct (mu_at_some n t' (fst s) (snd s) Hjn) as [Hdn Hm]. fold m in Hm.
  set (dn := qz n - qz (snd s) + 1) in *.
  assert (HS' : fst (sj_step s x) == fst s + x) by (unfold sj_step; cbn [fst]; apply Qred_correct).
  assert (HN' : (snd (sj_step s x) + Z.of_nat (length xr) - 1 <= n)%Z).
  { unfold sj_step; cbn [snd]. cbn [length] in HN. rewrite Nat2Z.inj_succ in HN. lia. }
  set (acc' := xred (xmul acc (kk_ratio x m))).
  set (seen' := seen || xis_zero (kk_ratio x m)).
  fold (kk_terms_from n t' (sj_step s x) seen' acc' xr).
  destruct Hst as [[q [Eacc Hq]]|Hdead].
  - subst acc.
    destruct (Qlt_bool m 0) eqn:Elt.
    + (* m < 0: +inf, dead afterwards *)
      apply Qlt_bool_iff in Elt. constructor.
      * unfold kk_override. assert (E : Qlt_bool m 0 = true) by (now apply Qlt_bool_iff). rewrite E. now left.
      * apply IH; auto. right. rewrite HS'. nra.
    + apply Qlt_bool_false in Elt.
      destruct (Qeq_bool m 0) eqn:Eeq.
      * apply Qeq_bool_iff in Eeq.
        destruct (Qlt_bool 0 x) eqn:Ex.
        -- apply Qlt_bool_iff in Ex. constructor.
           ++ unfold kk_override. assert (E1 : Qeq_bool m 0 = true) by (now apply Qeq_bool_iff).
              assert (E2 : Qlt_bool 0 x = true) by (now apply Qlt_bool_iff). rewrite E1, E2.
              rewrite orb_true_r. now left.
           ++ apply IH; auto. right. rewrite HS'. nra.
        -- apply Qlt_bool_false in Ex. assert (Ex0 : x == 0) by lra.
           assert (Eacc' : acc' = Fin (Qred (q * 1))).
           { unfold acc', kk_ratio. assert (E1 : Qeq_bool m 0 = true) by (now apply Qeq_bool_iff).
             assert (E2 : Qeq_bool x 0 = true) by (now apply Qeq_bool_iff). rewrite E1, E2. reflexivity. }
           constructor.
           ++ unfold kk_override. assert (E0 : Qlt_bool m 0 = false) by (apply Qlt_bool_false; lra).
              assert (E2 : Qlt_bool 0 x = false) by (apply Qlt_bool_false; lra). rewrite E0, E2, andb_false_r. cbn [orb].
              apply nn_absorbed. rewrite Eacc'. right. exists (Qred (q * 1)). split; auto. rewrite Qred_correct. lra.
           ++ apply IH; auto. left. exists (Qred (q * 1)). split; auto. rewrite Qred_correct. lra.
      * apply Qeq_bool_false in Eeq. assert (Hm0 : 0 < m) by (destruct (Qle_lt_or_eq _ _ Elt); auto; exfalso; apply Eeq; symmetry; auto).
        assert (Eacc' : acc' = Fin (Qred (q * (x / m)))).
        { unfold acc', kk_ratio. assert (E1 : Qeq_bool m 0 = false) by (now apply Qeq_bool_false).
          rewrite E1. cbn [andb xdiv]. rewrite E1. reflexivity. }
        assert (Hnn : 0 <= Qred (q * (x / m))).
        { rewrite Qred_correct. assert (0 <= x / m) by (apply div_nonneg; auto). nra. }
        constructor.
        -- unfold kk_override. assert (E0 : Qlt_bool m 0 = false) by (apply Qlt_bool_false; lra).
           assert (E1 : Qeq_bool m 0 = false) by (now apply Qeq_bool_false). rewrite E0, E1. cbn [orb andb].
           apply nn_absorbed. rewrite Eacc'. right. eexists; split; eauto.
        -- apply IH; auto. left. eexists; split; eauto.
  - (* dead: m < 0 from here on *)
    assert (Hm0 : m < 0) by nra. constructor.
    + unfold kk_override. assert (E : Qlt_bool m 0 = true) by (now apply Qlt_bool_iff). rewrite E. now left.
    + apply IH; auto. right. rewrite HS'. lra.
Qed.

Lemma py_pvr M : nn_term M -> xmin_py (xinv M) (Fin 1) = pvr M.
Proof.
  intros [E|[q [E Hq]]]; subst; unfold pvr, xmin_py, xinv; cbn [xdiv].
  - reflexivity.
  - destruct (Qeq_bool q 0) eqn:E0; [reflexivity|].
    cbn [xlt xmin_np xle]. unfold Qlt_bool. destruct (Qle_bool (1 / q) 1); reflexivity.
Qed.

Theorem kaplan_kolmogorov_wellformed g ro n t xs :
  0 <= g -> xs <> [] -> Forall (fun x => 0 <= x) xs -> (Z.of_nat (length xs) <= n)%Z ->
  kaplan_wf ro (kaplan_kolmogorov g ro n t xs) (length xs).
Proof.
  intros Hg Hne Hx HN. unfold kaplan_kolmogorov. cbv zeta.
  set (xg := map (fun x => x + g) xs).
  set (terms := map3 kk_override xg (mu_list (Some n) (t + g) xg)
                     (absorb xis_zero (Fin 0) false (map2 kk_ratio xg (mu_list (Some n) (t + g) xg))
                             (xcumprod (Fin 1) (map2 kk_ratio xg (mu_list (Some n) (t + g) xg))))).
  assert (Hxg : Forall (fun x => 0 <= x) xg).
  { unfold xg. apply Forall_map. eapply Forall_impl; [|exact Hx]. intros x H0. cbv beta in *. lra. }
  assert (Hlxg : length xg = length xs) by (unfold xg; apply map_length).
  assert (Hnn : Forall nn_term terms).
  { change terms with (kk_terms_from n (t + g) (0, 1%Z) false (Fin 1) xg).
    apply kk_terms_nn; auto. cbn [snd]. lia. left. exists 1. split; auto. lra. }
  assert (Hlen : length terms = length xs).
  { unfold terms. rewrite map3_length3; auto; unfold mu_list; rewrite ?run_machine_length; auto.
    rewrite absorb_length by apply xcumprod_length. rewrite map2_length; unfold mu_list; rewrite ?run_machine_length; auto. }
  assert (Hne' : terms <> []) by (intro E; rewrite E in Hlen; destruct xs; simpl in *; congruence).
  fold pvr. unfold kaplan_wf; cbn [fst snd].
  split; [now rewrite map_length|].
  split; [apply Forall_map; eapply Forall_impl; [|exact Hnn]; apply pvr_unit|].
  destruct ro.
  - destruct (xmax_list_nn terms Hne' Hnn) as [HM [HIn HAll]].
    rewrite (py_pvr _ HM).
    split; [now apply pvr_unit|]. split.
    + exists (pvr (xmax_list terms)). split; [now apply in_map|apply xeqv_refl].
    + apply Forall_map. rewrite Forall_forall in *. intros b Hb. apply pvr_antitone; auto.
  - assert (HL : nn_term (xlast terms)).
    { rewrite Forall_forall in Hnn. apply Hnn. unfold xlast. now apply last_In. }
    rewrite (py_pvr _ HL). split; [now apply pvr_unit|].
    rewrite (last_map pvr terms NaN NaN Hne'). apply xeqv_refl.
Qed.
