(* Status_proofs.v — lemmas about the completion logic model (Status.v), for all inputs. *)
From SV Require Export Status.
Open Scope Q_scope.

(* ---------------------------------------------------------------- dict_update *)
Lemma dict_update_fresh {V} (d : list (Z * V)) key (x : V) :
  ~ In key (map fst d) -> dict_update d key x = d ++ [(key, x)].
Proof.
  induction d as [|[a b] r IH]; simpl; intro Hn; auto.
  destruct (Z.eqb a key) eqn:E.
  - apply Z.eqb_eq in E. exfalso. apply Hn. now left.
  - f_equal. apply IH. intro Hc. apply Hn. now right.
Qed.

Lemma fold_dict_update_nodup {A V} (key : A -> Z) (f : A -> V) (l : list A) (d : list (Z * V)) :
  NoDup (map key l) -> (forall a, In a l -> ~ In (key a) (map fst d)) ->
  fold_left (fun d a => dict_update d (key a) (f a)) l d = d ++ map (fun a => (key a, f a)) l.
Proof.
  revert d. induction l as [|a r IH]; simpl; intros d Hnd Hfresh.
  - now rewrite app_nil_r.
  - inversion Hnd as [|? ? Hna Hnd']; subst.
    rewrite dict_update_fresh by (apply Hfresh; now left).
    rewrite IH; auto.
    + now rewrite <- app_assoc.
    + intros b Hb. rewrite map_app, in_app_iff. simpl. intros [Hc|[Hc|[]]].
      * eapply Hfresh; [right; exact Hb | exact Hc].
      * apply Hna. rewrite Hc. now apply in_map.
Qed.

(* ---------------------------------------------------------------- xmax_np / xle facts *)
Lemma xmax_np_nan_l b : xmax_np NaN b = NaN.
Proof. reflexivity. Qed.
Lemma xmax_np_nan_r a : xmax_np a NaN = NaN.
Proof. destruct a; reflexivity. Qed.

Lemma fold_xmax_nan_acc l : fold_left xmax_np l NaN = NaN.
Proof. induction l; simpl; auto. Qed.

Lemma fold_xmax_nan_in l acc : In NaN l -> fold_left xmax_np l acc = NaN.
Proof.
  revert acc. induction l as [|x r IH]; simpl; intros acc H; [contradiction|].
  destruct H as [H|H].
  - subst. rewrite xmax_np_nan_r. apply fold_xmax_nan_acc.
  - now apply IH.
Qed.

(* comparing a maximum with a finite limit is comparing both arguments *)
Lemma xle_xmax_np a b L : xle (xmax_np a b) (Fin L) = xle a (Fin L) && xle b (Fin L).
Proof.
  destruct a as [p| | |], b as [q| | |]; simpl; auto; try (destruct (Qle_bool _ _); reflexivity);
    try (now rewrite andb_false_r).
  destruct (Qle_bool p q) eqn:E; simpl.
  - destruct (Qle_bool q L) eqn:E2; [|now rewrite andb_false_r].
    apply Qle_bool_iff in E, E2. rewrite andb_true_r. symmetry. apply Qle_bool_iff. lra.
  - destruct (Qle_bool p L) eqn:E2; simpl; auto.
    apply Qle_bool_false in E. apply Qle_bool_iff in E2. symmetry. apply Qle_bool_iff. lra.
Qed.

Lemma xle_fold_xmax (l : list Xq) acc L :
  xle (fold_left xmax_np l acc) (Fin L) = xle acc (Fin L) && forallb (fun x => xle x (Fin L)) l.
Proof.
  revert acc. induction l as [|x r IH]; simpl; intro acc.
  - now rewrite andb_true_r.
  - rewrite IH, xle_xmax_np. now rewrite andb_assoc.
Qed.

Lemma fold_left_map {A B C} (f : C -> B -> C) (g : A -> B) (l : list A) (c : C) :
  fold_left (fun m a => f m (g a)) l c = fold_left f (map g l) c.
Proof. revert c. induction l; simpl; auto. Qed.

(* "largest of a list, starting from 0" as numpy computes it *)
Definition fin_nonneg (x : Xq) : Prop := exists q, x = Fin q /\ 0 <= q.
Definition is_max0 (m : Xq) (l : list Xq) : Prop :=
  (In NaN l -> m = NaN) /\
  ((forall x, In x l -> fin_nonneg x) ->
   fin_nonneg m /\ (forall x, In x l -> xle x m = true) /\ (l = [] -> m = Fin 0) /\ (l <> [] -> In m l)).

Lemma fold_xmax_fin (l : list Xq) (a : Q) :
  0 <= a -> (forall x, In x l -> fin_nonneg x) ->
  let m := fold_left xmax_np l (Fin a) in
  fin_nonneg m /\ xle (Fin a) m = true /\ (forall x, In x l -> xle x m = true) /\ (m = Fin a \/ In m l).
Proof.
  revert a. induction l as [|x r IH]; simpl; intros a Ha Hall.
  - split; [exists a; auto|]. split; [apply Qle_bool_iff; lra|]. split; [intros ? []|now left].
  - destruct (Hall x (or_introl eq_refl)) as [q [-> Hq]].
    simpl. destruct (Qle_bool a q) eqn:E.
    + apply Qle_bool_iff in E.
      destruct (IH q Hq (fun y Hy => Hall y (or_intror Hy))) as [Hm [Hle [Hr Hin]]].
      split; [exact Hm|]. split; [|split].
      * destruct Hm as [mq [Em Hmq]]. rewrite Em in *. simpl in *. apply Qle_bool_iff in Hle. apply Qle_bool_iff. lra.
      * intros y [<-|Hy]; auto.
      * destruct Hin as [->|Hin]; right; [now left | now right].
    + apply Qle_bool_false in E.
      destruct (IH a Ha (fun y Hy => Hall y (or_intror Hy))) as [Hm [Hle [Hr Hin]]].
      split; [exact Hm|]. split; [exact Hle|split].
      * intros y [<-|Hy]; auto.
        destruct Hm as [mq [Em Hmq]]. rewrite Em in *. simpl in *. apply Qle_bool_iff in Hle. apply Qle_bool_iff. lra.
      * destruct Hin as [->|Hin]; [now left | right; now right].
Qed.

Lemma fold_max0_spec (l : list Xq) : is_max0 (fold_left xmax_np l (Fin 0)) l.
Proof.
  split.
  - apply fold_xmax_nan_in.
  - intro Hall. destruct l as [|x r].
    + simpl. split; [exists 0; split; auto; lra|]. split; [intros ? []|]. split; [auto|congruence].
    + destruct (Hall x (or_introl eq_refl)) as [q [-> Hq]].
      simpl. assert (E : Qle_bool 0 q = true) by now apply Qle_bool_iff. rewrite E.
      destruct (fold_xmax_fin r q Hq (fun y Hy => Hall y (or_intror Hy))) as [Hm [Hle [Hr Hin]]].
      split; [exact Hm|]. split; [|split].
      * intros y [<-|Hy]; auto.
      * congruence.
      * intros _. destruct Hin as [->|Hin]; [now left | now right].
Qed.

(* ---------------------------------------------------------------- set_p_values *)
Section SetP.
  Variable test : Z -> Z -> option (Xq * list Xq).

  (* what one assertion looks like after set_p_values *)
  Definition asn_set (ck : Z) (limit : Q) (a a' : assertion) : Prop :=
    exists r, test ck (a_key a) = Some r /\ a' = set_asn limit r a.

  Lemma asn_loop_spec ck limit todo done pv pr mx done' pv' pr' mx' :
    asn_loop test ck limit todo (done, pv, pr, mx) = SOk (done', pv', pr', mx') ->
    exists new, Forall2 (asn_set ck limit) todo new /\ done' = rev new ++ done
      /\ pv' = fold_left (fun d a => dict_update d (a_key a) (a_p a)) new pv
      /\ pr' = fold_left (fun d a => dict_update d (a_key a) (a_proved a)) new pr
      /\ mx' = fold_left xmax_np (map a_p new) mx.
  Proof.
    revert done pv pr mx. induction todo as [|a rest IH]; simpl; intros done pv pr mx H.
    - inversion H; subst. exists []. simpl. repeat split; auto.
    - destruct (test ck (a_key a)) as [r|] eqn:Et; [|discriminate].
      apply IH in H. destruct H as [new [HF [Hd [Hpv [Hpr Hmx]]]]].
      exists (set_asn limit r a :: new). simpl. repeat split; auto.
      + constructor; auto. exists r. auto.
      + rewrite Hd. now rewrite <- app_assoc.
  Qed.

  Definition con_set (c c' : contest) : Prop :=
    c_key c' = c_key c /\ c_limit c' = c_limit c
    /\ Forall2 (asn_set (c_key c) (c_limit c)) (c_asns c) (c_asns c')
    /\ c_pvalues c' = fold_left (fun d a => dict_update d (a_key a) (a_p a)) (c_asns c') []
    /\ c_proved c' = fold_left (fun d a => dict_update d (a_key a) (a_proved a)) (c_asns c') []
    /\ c_maxp c' = fold_left xmax_np (map a_p (c_asns c')) (Fin 0).

  Lemma set_contest_spec c c' : set_contest test c = SOk c' -> con_set c c'.
  Proof.
    unfold set_contest. intro H.
    destruct (asn_loop test (c_key c) (c_limit c) (c_asns c) ([], [], [], Fin 0)) as [[[[d pv] pr] mx]|e] eqn:E; [|discriminate].
    inversion H; subst; clear H.
    apply asn_loop_spec in E. destruct E as [new [HF [Hd [Hpv [Hpr Hmx]]]]].
    subst d. rewrite app_nil_r, rev_involutive. unfold con_set. simpl. repeat split; auto.
  Qed.

  Lemma con_loop_spec todo done mx done' mx' :
    con_loop test todo (done, mx) = SOk (done', mx') ->
    exists new, Forall2 con_set todo new /\ done' = rev new ++ done /\ mx' = fold_left xmax_np (map c_maxp new) mx.
  Proof.
    revert done mx. induction todo as [|c rest IH]; simpl; intros done mx H.
    - inversion H; subst. exists []. simpl. auto.
    - destruct (set_contest test c) as [c'|e] eqn:E; [|discriminate].
      apply IH in H. destruct H as [new [HF [Hd Hmx]]].
      exists (c' :: new). simpl. repeat split; auto.
      + constructor; auto. now apply set_contest_spec.
      + rewrite Hd. now rewrite <- app_assoc.
  Qed.

  Lemma set_p_values_spec lens cs cs' pmax :
    set_p_values test lens cs = SOk (cs', pmax) ->
    lens = true /\ Forall2 con_set cs cs' /\ pmax = fold_left xmax_np (map c_maxp cs') (Fin 0).
  Proof.
    unfold set_p_values. destruct lens; simpl; [|discriminate].
    destruct (con_loop test cs ([], Fin 0)) as [[d m]|e] eqn:E; [|discriminate].
    intro H; inversion H; subst; clear H.
    apply con_loop_spec in E. destruct E as [new [HF [Hd Hm]]]. subst.
    rewrite app_nil_r, rev_involutive. auto.
  Qed.

  (* C09_recorded *)
  Lemma recorded lens cs cs' pmax :
    set_p_values test lens cs = SOk (cs', pmax) ->
    Forall2 (fun c c' =>
      c_key c' = c_key c /\ c_limit c' = c_limit c /\
      Forall2 (fun a a' =>
        a_key a' = a_key a /\
        test (c_key c) (a_key a) = Some (a_p a', a_hist a') /\
        a_proved a' = (xle (a_p a') (Fin (c_limit c)) || a_proved a)%bool) (c_asns c) (c_asns c') /\
      (NoDup (map a_key (c_asns c)) ->
         c_pvalues c' = map (fun a => (a_key a, a_p a)) (c_asns c') /\
         c_proved c' = map (fun a => (a_key a, a_proved a)) (c_asns c'))) cs cs'.
  Proof.
    intro H. apply set_p_values_spec in H. destruct H as [_ [HF _]].
    induction HF as [|c c' l l' Hc HF IH]; constructor; auto.
    destruct Hc as [Hk [Hl [Ha [Hpv [Hpr Hmx]]]]].
    assert (Hkeys : map a_key (c_asns c') = map a_key (c_asns c)).
    { clear -Ha. induction Ha as [|a a' r r' [x [_ ->]] _ IH]; simpl; auto. now f_equal. }
    repeat split; auto.
    - clear -Ha. induction Ha as [|a a' r r' [x [Ht ->]] _ IH]; constructor; auto.
      simpl. destruct x; auto.
    - rewrite Hpv. rewrite fold_dict_update_nodup; auto. now rewrite Hkeys.
    - rewrite Hpr. rewrite fold_dict_update_nodup; auto. now rewrite Hkeys.
  Qed.

  (* C09_max *)
  Lemma maxima lens cs cs' pmax :
    set_p_values test lens cs = SOk (cs', pmax) ->
    Forall (fun c' => is_max0 (c_maxp c') (map a_p (c_asns c'))) cs' /\ is_max0 pmax (map c_maxp cs').
  Proof.
    intro H. apply set_p_values_spec in H. destruct H as [_ [HF ->]]. split.
    - clear -HF. induction HF as [|c c' l l' Hc HF IH]; constructor; auto.
      destruct Hc as [_ [_ [_ [_ [_ ->]]]]]. apply fold_max0_spec.
    - apply fold_max0_spec.
  Qed.

  (* set_p_values fails only by the length assertion or because some assertion's computation raises *)
  Lemma set_p_values_total lens cs :
    lens = true -> (forall c a, In c cs -> In a (c_asns c) -> test (c_key c) (a_key a) <> None) ->
    exists cs' pmax, set_p_values test lens cs = SOk (cs', pmax).
  Proof.
    intros -> Hall. unfold set_p_values. simpl.
    assert (Hal : forall ck limit todo acc, (forall a, In a todo -> test ck (a_key a) <> None) ->
                   exists r, asn_loop test ck limit todo acc = SOk r).
    { induction todo as [|a rest IH]; simpl; intros acc Ht; [eexists; reflexivity|].
      destruct (test ck (a_key a)) eqn:E; [|exfalso; eapply Ht; [left; reflexivity | exact E]].
      destruct acc as [[[d pv] pr] mx]. apply IH. intros b Hb. apply Ht. now right. }
    assert (Hcl : forall todo acc, (forall c a, In c todo -> In a (c_asns c) -> test (c_key c) (a_key a) <> None) ->
                   exists r, con_loop test todo acc = SOk r).
    { induction todo as [|c rest IH]; simpl; intros acc Ht; [eexists; reflexivity|].
      unfold set_contest.
      destruct (Hal (c_key c) (c_limit c) (c_asns c) ([], [], [], Fin 0)) as [[[[d pv] pr] mx] Er].
      { intros a Ha. apply Ht; auto. }
      rewrite Er. apply IH. intros c0 a0 Hc0. apply Ht. now right. }
    destruct (Hcl cs ([], Fin 0) Hall) as [[d m] Er]. rewrite Er. eauto.
  Qed.
End SetP.

(* ---------------------------------------------------------------- summarize_status *)
Lemma summarize_fold cs b :
  fold_left (fun done c => if xle (contest_cpmax c) (Fin (c_limit c)) then done else false) cs b
  = b && forallb (fun c => xle (contest_cpmax c) (Fin (c_limit c))) cs.
Proof.
  revert b. induction cs as [|c r IH]; simpl; intro b.
  - now rewrite andb_true_r.
  - rewrite IH. destruct (xle (contest_cpmax c) (Fin (c_limit c))); simpl; auto.
    now rewrite andb_false_r.
Qed.

Lemma contest_done_iff c :
  0 <= c_limit c ->
  (xle (contest_cpmax c) (Fin (c_limit c)) = true <-> forall a, In a (c_asns c) -> xle (a_p a) (Fin (c_limit c)) = true).
Proof.
  intro HL. unfold contest_cpmax. rewrite fold_left_map, xle_fold_xmax.
  assert (E0 : xle (Fin 0) (Fin (c_limit c)) = true) by (simpl; now apply Qle_bool_iff).
  rewrite E0. simpl. rewrite forallb_forall. split.
  - intros H a Ha. apply H. now apply in_map.
  - intros H x Hx. apply in_map_iff in Hx. destruct Hx as [a [<- Ha]]. auto.
Qed.

(* C09_done_iff *)
Lemma done_iff cs :
  (forall c, In c cs -> 0 <= c_limit c) ->
  (summarize_status cs = true <->
   forall c, In c cs -> forall a, In a (c_asns c) -> xle (a_p a) (Fin (c_limit c)) = true).
Proof.
  intro HL. unfold summarize_status. rewrite summarize_fold. simpl. rewrite forallb_forall. split.
  - intros H c Hc. apply contest_done_iff; auto.
  - intros H c Hc. apply contest_done_iff; auto.
Qed.

(* a NaN p-value anywhere keeps the audit incomplete, whatever the limits *)
Lemma nan_never_done cs c a : In c cs -> In a (c_asns c) -> a_p a = NaN -> summarize_status cs = false.
Proof.
  intros Hc Ha Hp. unfold summarize_status. rewrite summarize_fold. simpl.
  apply not_true_is_false. intro H. rewrite forallb_forall in H. specialize (H c Hc).
  unfold contest_cpmax in H. rewrite fold_left_map in H.
  rewrite fold_xmax_nan_in in H; [discriminate|]. rewrite <- Hp. now apply in_map.
Qed.

(* ---------------------------------------------------------------- reset_p_values *)
Lemma Forall2_map_self {A B} (R : A -> B -> Prop) (f : A -> B) (l : list A) :
  (forall a, In a l -> R a (f a)) -> Forall2 R l (map f l).
Proof. induction l; simpl; constructor; auto. Qed.

Lemma reset_spec cs :
  exists cs', reset_p_values cs = (cs', true) /\
  Forall2 (fun c c' =>
    c_key c' = c_key c /\ c_limit c' = c_limit c /\ c_maxp c' = Fin 1 /\
    Forall2 (fun a a' => a_key a' = a_key a /\ a_p a' = Fin 1 /\ a_hist a' = [] /\ a_proved a' = false) (c_asns c) (c_asns c') /\
    (NoDup (map a_key (c_asns c)) ->
       c_pvalues c' = map (fun a => (a_key a, Fin 1)) (c_asns c) /\
       c_proved c' = map (fun a => (a_key a, false)) (c_asns c))) cs cs'.
Proof.
  exists (map reset_contest cs). split; [reflexivity|].
  apply Forall2_map_self. intros c _. simpl.
  split; [reflexivity|]. split; [reflexivity|]. split; [reflexivity|]. split.
  - apply Forall2_map_self. intros a _. simpl. auto.
  - intro Hnd. split.
    + rewrite fold_dict_update_nodup; simpl; auto.
      * now rewrite map_map.
      * now rewrite map_map.
    + rewrite fold_dict_update_nodup; simpl; auto.
      * now rewrite map_map.
      * now rewrite map_map.
Qed.

(* after a reset no contest that has an assertion and a risk limit below 1 is complete *)
Lemma reset_not_done cs c : In c cs -> c_asns c <> [] -> c_limit c < 1 -> summarize_status (fst (reset_p_values cs)) = false.
Proof.
  intros Hc Hne Hl. simpl. unfold summarize_status. rewrite summarize_fold. simpl.
  apply not_true_is_false. intro H. rewrite forallb_forall in H.
  specialize (H (reset_contest c) (in_map _ _ _ Hc)).
  unfold contest_cpmax in H. rewrite fold_left_map, xle_fold_xmax in H.
  apply andb_true_iff in H. destruct H as [_ H]. rewrite forallb_forall in H.
  simpl in H. destruct (c_asns c) as [|a l]; [congruence|].
  specialize (H (Fin 1)). simpl in H. specialize (H (or_introl eq_refl)).
  apply Qle_bool_iff in H. lra.
Qed.

(* ---------------------------------------------------------------- check_audit_parameters *)
Lemma check_contest_ok p :
  check_contest p = None ->
  0 < p_limit p /\ p_limit p <= 1 # 2 /\ (forall w, In w (p_winner p) -> In w (p_candidates p))
  /\ Z.of_nat (length (p_winner p)) = p_nwinners p /\ (p_nwinners p <= Z.of_nat (length (p_candidates p)))%Z.
Proof.
  unfold check_contest.
  destruct (Qlt_bool 0 (p_limit p)) eqn:E1; simpl; [|discriminate].
  destruct (Qle_bool (p_limit p) (1 # 2)) eqn:E2; simpl; [|discriminate].
  destruct ((0 <=? p_choice p)%Z && (p_choice p <=? 3)%Z) eqn:E3; simpl; [|discriminate].
  destruct (p_nwinners p <=? Z.of_nat (length (p_candidates p)))%Z eqn:E4; simpl; [|discriminate].
  destruct (Z.of_nat (length (p_winner p)) =? p_nwinners p)%Z eqn:E5; simpl; [|discriminate].
  destruct (forallb (fun w => existsb (Z.eqb w) (p_candidates p)) (p_winner p)) eqn:E6; simpl; [|discriminate].
  intros _. repeat split.
  - now apply Qlt_bool_iff.
  - now apply Qle_bool_iff.
  - intros w Hw. rewrite forallb_forall in E6. specialize (E6 w Hw). apply existsb_exists in E6.
    destruct E6 as [x [Hx Ex]]. apply Z.eqb_eq in Ex. now subst.
  - now apply Z.eqb_eq.
  - now apply Z.leb_le.
Qed.

Lemma check_params_ok e1 e2 ps :
  check_audit_parameters e1 e2 ps = SOk tt ->
  forall p, In p ps -> 0 < p_limit p /\ p_limit p <= 1 # 2 /\ (forall w, In w (p_winner p) -> In w (p_candidates p)).
Proof.
  unfold check_audit_parameters.
  destruct (Qle_bool 0 e1); simpl; [|discriminate]. destruct (Qle_bool 0 e2); simpl; [|discriminate].
  induction ps as [|q r IH]; simpl; intros H p [].
  - subst. destruct (check_contest p) eqn:E; [discriminate|]. apply check_contest_ok in E. tauto.
  - destruct (check_contest q) eqn:E; [discriminate|]. auto.
Qed.
