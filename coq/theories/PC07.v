(* PC07.v — placeholder while the proofs are being built *)
From SV Require Import Sampling.
Theorem C07_placeholder : True. Proof. exact I. Qed.
Print Assumptions C07_placeholder.
