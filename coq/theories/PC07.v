(* PC07.v — property C07: consistent sampling gives every contest the first cards of its own random order.
   Only statements; proofs are in Sampling_proofs.v; the model (Sampling.v) is tied to shangrla/core/Audit.py by the
   correspondence run of harness/c07.py.

   Vocabulary (definitions in Sampling_proofs.v, all computable):
     order cards               the (position, card) pairs sorted by sample number (= the model's sorted_cards; clause (a)
                               of C07_selection pins it down: a permutation of the positions, sorted; strictly when the
                               numbers are distinct, which makes it unique)
     first_cards cards c n     positions of the first n cards listing contest c, in that order
     n_listing cards c         number of cards listing c
     sizes_available cards ks  every contest's sample_size <= number of cards listing it
     skel cd                   (sample number, contest ids listed): all that may influence the selection
   A contest is (k_id, k_size = sample_size, k_thr = sample_threshold); a card is (c_num, c_votes : contest id -> payload,
   c_extra : payload); payloads (vote dicts, id, phantom flag, ...) are an abstract type. *)
From SV Require Import Sampling Sampling_proofs.
From Coq Require Import Permutation Sorted.
Open Scope Z_scope.

(* ---- a concrete input used by the non-vacuity examples: six cards, two audited contests (1 and 2), one card listing
   only an unaudited contest (9), sample numbers not in list order *)
Definition ex_cards : list (card nat) :=
  [ mkcard 30 [(1, 7%nat)] 0%nat;  mkcard 50 [(2, 0%nat)] 1%nat;  mkcard 10 [(9, 3%nat)] 2%nat;
    mkcard 20 [(2, 1%nat); (1, 0%nat)] 3%nat;  mkcard 40 [(2, 5%nat)] 4%nat;  mkcard 60 [(1, 1%nat)] 5%nat ].
Definition ex_ks : list contest := [ mkcon 1 2 None; mkcon 2 2 None ].
Lemma ex_available : sizes_available ex_cards ex_ks.
Proof. intros k [<-|[<-|[]]]; vm_compute; lia. Qed.
Lemma ex_distinct : NoDup (map c_num ex_cards).
Proof. repeat constructor; simpl; intuition discriminate. Qed.

(* The selected cards are exactly the union over contests of that contest's first n_c cards in sample-number order,
   reported without repetition in sample-number order.  (No distinctness hypothesis is needed for (b), (c1), (c2), (d):
   with tied numbers `order` is Python's stable sort.) *)
Theorem C07_selection : forall (V : Type) (cards : list (card V)) (ks : list contest),
  sizes_available cards ks ->
  (* (a) what "sample-number order" is *)
  (Permutation (map fst (order cards)) (seq 0 (length cards)) /\
   (forall i cd, In (i, cd) (order cards) -> nth_error cards i = Some cd) /\
   StronglySorted (fun a b => c_num (snd a) <= c_num (snd b)) (order cards) /\
   (NoDup (map c_num cards) -> StronglySorted (fun a b => c_num (snd a) < c_num (snd b)) (order cards))) /\
  (* (b) the fresh draw returns, in that order, the positions that are among some contest's first n_c cards *)
  fst (consistent_sampling cards ks None) =
    Ok (filter (fun i => existsb (fun k => memn i (first_cards cards (k_id k) (k_size k))) ks) (map fst (order cards))) /\
  (* (c) no repetition; exactly the union; increasing sample numbers *)
  (forall sel, fst (consistent_sampling cards ks None) = Ok sel ->
     NoDup sel /\
     (forall i, In i sel <-> (i < length cards)%nat /\ exists k, In k ks /\ In i (first_cards cards (k_id k) (k_size k))) /\
     (forall dflt, NoDup (map c_num cards) ->
        StronglySorted (fun i j => c_num (nth i cards dflt) < c_num (nth j cards dflt)) sel)) /\
  (* (d) each contest's part has exactly n_c cards *)
  (forall k, In k ks -> length (first_cards cards (k_id k) (k_size k)) = k_size k).
Proof. exact (@C07_selection_stmt). Qed.
Print Assumptions C07_selection.

Example C07_selection_nonvacuous :
  sizes_available ex_cards ex_ks /\
  fst (consistent_sampling ex_cards ex_ks None) = Ok [3; 0; 4]%nat /\
  first_cards ex_cards 1 2 = [3; 0]%nat /\ first_cards ex_cards 2 2 = [3; 4]%nat.
Proof. split; [exact ex_available|]. vm_compute. auto. Qed.

(* Each contest's threshold is the sample number of its n_c-th card (n_c >= 1), and the data later used for that contest's
   assertions (mvrs_to_data on the round's sample, card-comparison or ONEAudit with use_style) are exactly those n_c cards
   in that order — for a fresh draw (prev = None) and for any continuation list, whatever other cards are in the sample,
   whatever the manual records `mvr`, whatever the assorter `f`. *)
Theorem C07_threshold : forall (V M D : Type) (f : M -> card V -> D) (g : M -> D) (mvr : nat -> M) (dflt : card V)
    (cards : list (card V)) (ks : list contest) (prev : option (list nat)) (j : nat) (k : contest) (ty : atype),
  NoDup (map c_num cards) -> sizes_available cards ks ->
  nth_error ks j = Some k -> (1 <= k_size k)%nat -> ty = Comparison \/ ty = OneAudit ->
  let r := consistent_sampling cards ks prev in
  exists sel k' i,
    fst r = Ok sel /\ nth_error (snd r) j = Some k' /\
    k_id k' = k_id k /\ k_size k' = k_size k /\
    nth_error (first_cards cards (k_id k) (k_size k)) (k_size k - 1) = Some i /\
    k_thr k' = Some (c_num (nth i cards dflt)) /\
    round_data f g mvr dflt cards sel ty true k' =
      Ok (map (fun i => f (mvr i) (nth i cards dflt)) (first_cards cards (k_id k) (k_size k))) /\
    length (first_cards cards (k_id k) (k_size k)) = k_size k.
Proof. exact (@C07_threshold_stmt). Qed.
Print Assumptions C07_threshold.

Example C07_threshold_nonvacuous :
  NoDup (map c_num ex_cards) /\ sizes_available ex_cards ex_ks /\ nth_error ex_ks 0 = Some (mkcon 1 2 None) /\
  map k_thr (snd (consistent_sampling ex_cards ex_ks None)) = [Some 30; Some 40] /\
  (* contest 1 sees cards 3 and 0 although card 4 (number 40 > 30) is also in the sample *)
  round_data (fun (m : nat) (c : card nat) => (m, c_num c)) (fun m => (m, 0)) (fun i => i) (mkcard 0 [] 0%nat)
             ex_cards [3; 0; 4]%nat Comparison true (mkcon 1 2 (Some 30)) = Ok [(3%nat, 20); (0%nat, 30)].
Proof. split; [exact ex_distinct|]. split; [exact ex_available|]. vm_compute. auto. Qed.

(* The selection (indices and thresholds) depends on the records only through their sample numbers and the contests each
   lists: two card lists with the same skeletons, of possibly different payload types, give the same result. *)
Theorem C07_votes_irrelevant : forall (V W : Type) (cards1 : list (card V)) (cards2 : list (card W))
    (ks : list contest) (prev : option (list nat)),
  map skel cards1 = map skel cards2 ->
  consistent_sampling cards1 ks prev = consistent_sampling cards2 ks prev.
Proof. exact (@votes_irrelevant). Qed.
Print Assumptions C07_votes_irrelevant.

Example C07_votes_irrelevant_nonvacuous :
  let other : list (card bool) :=
    [ mkcard 30 [(1, true)] false;  mkcard 50 [(2, false)] true;  mkcard 10 [(9, true)] true;
      mkcard 20 [(2, false); (1, false)] false;  mkcard 40 [(2, true)] false;  mkcard 60 [(1, false)] true ] in
  map skel ex_cards = map skel other /\ fst (consistent_sampling other ex_ks None) = Ok [3; 0; 4]%nat.
Proof. vm_compute. auto. Qed.

(* Sample numbers are a function of the generator stream and a card's position only: card i gets draw k+i (k = the
   generator's counter on entry), whatever the records contain; nothing else in the records changes. *)
Theorem C07_sample_nums : forall (V : Type) (rnd : nat -> Z) (k : nat) (cards : list (card V)),
  let r := assign_sample_nums rnd k cards in
  (forall i d, (i < length cards)%nat -> c_num (nth i (fst r) d) = rnd (k + i)%nat) /\
  map c_votes (fst r) = map c_votes cards /\ map c_extra (fst r) = map c_extra cards /\
  snd r = (k + length cards)%nat /\
  (forall (W : Type) (cards' : list (card W)), length cards' = length cards ->
     map c_num (fst (assign_sample_nums rnd k cards')) = map c_num (fst r)).
Proof. exact C07_sample_nums_stmt. Qed.
Print Assumptions C07_sample_nums.

Example C07_sample_nums_nonvacuous :
  map c_num (fst (assign_sample_nums (fun i => Z.of_nat (i * i + 7)) 2 ex_cards)) = [11; 16; 23; 32; 43; 56].
Proof. vm_compute. reflexivity. Qed.
