(* PC20.v — property C20: the pruned elimination tree shows an unpruned leaf iff the assertions are insufficient;
   every pruned node is tagged with exactly the assertions that contradict it.
   Model: IrvVis.v (buildRemainingTreeAsLists / treeListToTuple / parseAssertions).  Specification of "contradicts"
   (IrvVis_proofs.v, top): an elimination order is a list, first eliminated first, alternative winner last;
     NEB tuple (l, w, _)  is contradicted by pi  iff  w occurs before l in pi;
     NEN tuple (x, E, _)  is contradicted by pi  iff  the candidates before x in pi are exactly the set E. *)
From Coq Require Import ZArith List Bool Permutation.
From SV Require Import IrvVis IrvVis_proofs.
Import ListNotations.
Open Scope Z_scope.

(* For every duplicate-free set S of other candidates, alternative winner c, and ARBITRARY lists of NEB and NEN tuples
   (redundant, inconsistent, naming unknown candidates ...): the tree has an unpruned leaf iff some permutation of S
   followed by c is an elimination order contradicted by no assertion. *)
Theorem C20_unpruned_iff : forall (WO : list neb) (IRV : list nen) (c : Z) (S : list Z),
  NoDup S ->
  (has_unpruned_leaf (build_tree WO IRV c S) = true <->
   exists pi, Permutation pi S /\ uncontradicted WO IRV (pi ++ [c])).
Proof. exact unpruned_iff. Qed.
Print Assumptions C20_unpruned_iff.

Example C20_unpruned_iff_nonvacuous :
  NoDup [2; 3; 4] /\
  has_unpruned_leaf (build_tree [(2, 3, true)] [(3, [], false); (4, [2; 3], true)] 1 [2; 3; 4]) = true /\
  has_unpruned_leaf (build_tree [(2, 3, true); (1, 4, false)] [(3, [], false)] 1 [2; 3; 4]) = false.
Proof. repeat split; try reflexivity. repeat constructor; simpl; intuition discriminate. Qed.

(* Every leaf of the tree (pruned node or unpruned leaf), found below the path `suf` (nearest ancestor first, root c
   last), with Sx the candidates not yet placed: an NEB / NEN assertion's (list.index, proved) pair is among the
   node's tags iff the assertion contradicts — at the elimination of the node's own candidate x — every elimination
   order through the node; every tag is of that form and its number points at (a tuple equal to) that assertion;
   a leaf without tags only occurs at full depth. *)
Theorem C20_tags_exact : forall (WO : list neb) (IRV : list nen) (c : Z) (S : list Z),
  NoDup (c :: S) ->
  forall x nt it suf, In (Leaf x nt it, suf) (nodes (build_tree WO IRV c S) []) ->
  exists Sx,
    Permutation (Sx ++ x :: suf) (S ++ [c]) /\ (exists pre, x :: suf = pre ++ [c]) /\
    (forall a, In a WO ->
       (In (index_of neb_eqb a WO, neb_proved a) nt <-> forall sg, Permutation sg Sx -> neb_contra_at a x (sg ++ x :: suf))) /\
    (forall tg, In tg nt -> exists a, In a WO /\ tg = (index_of neb_eqb a WO, neb_proved a) /\ nth_error WO (fst tg) = Some a) /\
    (forall a, In a IRV ->
       (In (index_of nen_eqb a IRV, nen_proved a) it <-> forall sg, Permutation sg Sx -> nen_contra_at a x (sg ++ x :: suf))) /\
    (forall tg, In tg it -> exists a b, In a IRV /\ tg = (index_of nen_eqb a IRV, nen_proved a) /\
                                       nth_error IRV (fst tg) = Some b /\ nen_eqb b a = true) /\
    (nt = [] /\ it = [] -> Sx = []).
Proof. exact tags_exact. Qed.
Print Assumptions C20_tags_exact.

(* The same with plain "contradicts every order through the node" (no reference to where the contradiction occurs):
   exact for NEB tags always, and for NEN tags whenever the number of candidates still to be placed is not 1. *)
Theorem C20_tags_exact_orders : forall (WO : list neb) (IRV : list nen) (c : Z) (S : list Z),
  NoDup (c :: S) ->
  forall x nt it suf, In (Leaf x nt it, suf) (nodes (build_tree WO IRV c S) []) ->
  exists Sx,
    Permutation (Sx ++ x :: suf) (S ++ [c]) /\
    (forall a, In a WO ->
       (In (index_of neb_eqb a WO, neb_proved a) nt <-> forall sg, Permutation sg Sx -> neb_contra a (sg ++ x :: suf))) /\
    (length Sx <> 1%nat -> forall a, In a IRV ->
       (In (index_of nen_eqb a IRV, nen_proved a) it <-> forall sg, Permutation sg Sx -> nen_contra a (sg ++ x :: suf))).
Proof. exact tags_exact_orders. Qed.
Print Assumptions C20_tags_exact_orders.

Example C20_tags_nonvacuous :
  NoDup [1; 2; 3; 4] /\
  In (Leaf 2 [(0%nat, true); (0%nat, true)] [(1%nat, false)], [4; 1])
     (nodes (build_tree [(2, 3, true); (2, 3, true); (9, 9, false)] [(3, [], false); (2, [3], false)] 1 [2; 3; 4]) []).
Proof. split; [repeat constructor; simpl; intuition discriminate|]. vm_compute. intuition. Qed.

(* why the side condition on NEN: with one candidate y left below a pruned node, NEN (y, {}) contradicts the only order
   through the node, yet it is the child's tag, not the node's *)
Example C20_tags_single_candidate_below :
  build_tree [(1, 2, true)] [(2, [], false)] 1 [2] = Leaf 1 [(0%nat, true)] [] /\
  nen_contra (2, [], false) ([2] ++ [1]).
Proof. split; [reflexivity|]. simpl. exists [], [1]. split; [reflexivity|]. intro y. tauto. Qed.

(* parseAssertions: the NEB and NEN tuples are, in order, what each assertion's JSON says (classify / parse_spec in
   IrvVis_proofs.v: assertion_json entry at the same index decides; WINNER_ONLY -> (loser, winner, proved);
   IRV_ELIMINATION -> (winner, set(already_eliminated), proved); other type -> nothing; no entry or no type ->
   (loser, winner, proved) from the assertion itself), for the selected contest in either dialect. *)
Theorem C20_parse : forall (f : afile) (manifest : list (Z * Z)) (contest_id : option Z),
  let '(rla, au) := selected f contest_id in
  let ajson := if rla then match au_json au with Some j => j | None => [] end else [] in
  let '(_, _, WO, IRV) := parse_assertions f manifest contest_id in
  (WO, IRV) = parse_spec rla ajson 0 (au_assertions au).
Proof. exact parse_assertions_tuples. Qed.
Print Assumptions C20_parse.

Example C20_parse_nonvacuous :
  let au := mkAudit 15 [15; 16; 17] []
                    [mkAraw 15 16 (PBool true); mkAraw 15 17 PAbsent; mkAraw 16 17 (PBool false); mkAraw 1 2 (PBool true)]
                    (Some [mkAdetail (Some TWinnerOnly) 15 16 []; mkAdetail (Some TIrvElim) 15 17 [16];
                           mkAdetail (Some TOtherType) 0 0 []]) in
  parse_assertions (RLALog [(339, au)]) [(15, 1); (16, 2)] None
  = ((15, 1), [(16, 2); (17, -1)], [(16, 15, true); (2, 1, true)], [(15, [16], false)]).
Proof. reflexivity. Qed.
