(* PC20.v placeholder while the proofs are being built *)
From SV Require Import IrvVis.
Theorem C20_placeholder : True. Proof. exact I. Qed.
Print Assumptions C20_placeholder.
