(* PC06.v — property C06: data handed to a test lie inside the bound the test is told.
   Model: Compare.v (mirrors Assertion.mvrs_to_data, Assertion.overstatement_assorter, Assorter.overstatement and the
   `d, u = mvrs_to_data(..); asn.test.u = u; asn.test.test(d)` loop of Assertion.set_p_values in shangrla/core/Audit.py).
   An assertion record `asn` carries an arbitrary assorter a_A, its bound a_ua, the margin however it was set, the pool
   means, the contest's style flag / audit type / sample threshold and the u currently held by its test.
   Decidable hypotheses: range_ok (0 <= A <= u_a on the sampled records), means_ok (stored pool means are numbers in
   [0, u_a]; lemma pool_means_ok: the means computed by set_tally_pool_means from such an A are, or are NaN for an
   empty pool), 1/2 <= u_a (a phantom CVR is scored 1/2; true of every assorter able to express "mean > 1/2"),
   margin v < 2 u_a (in particular every margin computed from CVRs, see C03_identity; v > 0 is not needed). *)
From SV Require Import Compare Compare_proofs.
Open Scope Q_scope.

(* comparison and ONEAudit: every datum is a number in [0, 2/(2 - v/u_a)] and that bound is the u returned *)
Theorem C06_comparison :
  forall (a : asn) (mvrs cvrs : list card) (use_all : bool) (d : list Xq) (u : Xq) (v : Q),
  is_comparison (a_type a) = true ->
  a_margin a = Fin v -> (1 # 2) <= a_ua a -> v < 2 * a_ua a ->
  range_ok (a_A a) (a_ua a) (mvrs ++ cvrs) = true ->
  means_ok (a_ua a) (a_means a) = true ->
  mvrs_to_data a mvrs cvrs use_all = Ok (d, u) ->
  u = Fin (2 / (2 - v / a_ua a)) /\ Forall (in_range (2 / (2 - v / a_ua a))) d.
Proof. exact C06_comparison_lemma. Qed.
Print Assumptions C06_comparison.

(* polling: the data are the assorter values of the manual records, u is the assorter's own bound; never raises *)
Theorem C06_polling :
  forall (a : asn) (mvrs cvrs : list card) (use_all : bool),
  a_type a = Polling ->
  mvrs_to_data a mvrs cvrs use_all = Ok (map (fun m => Fin (a_A a m)) mvrs, Fin (a_ua a)) /\
  (range_ok (a_A a) (a_ua a) mvrs = true -> Forall (in_range (a_ua a)) (map (fun m => Fin (a_A a m)) mvrs)).
Proof. exact C06_polling_lemma. Qed.
Print Assumptions C06_polling.

(* the cards contributing are exactly, in order, the sampled pairs whose CVR lists the contest and whose sample number
   is <= the contest's threshold (or use_all) when the contest uses style, all pairs otherwise; each datum is the
   overstatement assorter of its pair; the sanity check of Assorter.overstatement (ValueError) can never fire *)
Theorem C06_filter :
  forall (a : asn) (mvrs cvrs : list card) (use_all : bool),
  is_comparison (a_type a) = true ->
  let contributing :=
    filter (fun p => negb (a_style a) ||
                     (has_contest (a_cid a) (snd p) && (use_all || Qle_bool (c_snum (snd p)) (a_thr a))))
           (combine mvrs cvrs) in
  mvrs_to_data a mvrs cvrs use_all <> Raise EValue /\
  forall d u, mvrs_to_data a mvrs cvrs use_all = Ok (d, u) ->
    Forall2 (fun p x => overstatement_assorter (a_A a) (a_cid a) (a_means a) (a_margin a) (a_ua a)
                                               (fst p) (snd p) (a_style a) = Ok x) contributing d.
Proof. exact C06_filter_lemma. Qed.
Print Assumptions C06_filter.

(* set_p_values: whatever u each test held before and however the margins were set, every test runs holding the u
   that mvrs_to_data returned for its assertion, on exactly the data returned with it; afterwards test.u is that u and
   nothing else in the assertion has changed *)
Theorem C06_installed :
  forall (mvrs cvrs : list card) (asns asns' : list asn) (calls : list call),
  set_p_values asns mvrs cvrs = Ok (asns', calls) ->
  length asns' = length asns /\ length calls = length asns /\
  Forall2 (fun a (ac : asn * call) =>
             exists d u, mvrs_to_data a mvrs cvrs false = Ok (d, u) /\
                         call_u (snd ac) = u /\ call_d (snd ac) = d /\
                         fst ac = set_test_u a u /\ a_test_u (fst ac) = u)
          asns (combine asns' calls).
Proof. exact C06_installed_lemma. Qed.
Print Assumptions C06_installed.

(* supporting: pool means computed by the model are NaN (empty pool) or numbers in [0, u_a] *)
Theorem C06_pool_means_in_range :
  forall A cid cvrs arg use_style ua means,
  range_ok A ua cvrs = true ->
  set_tally_pool_means A cid cvrs arg use_style = Ok means ->
  forall p m, In (p, m) means -> m = NaN \/ in_range ua m.
Proof. exact pool_means_ok. Qed.
Print Assumptions C06_pool_means_in_range.

(* ---- non-vacuity ---- *)
Definition exA (c : card) : Q := match c_votes c with 0%Z => 0 | 1%Z => 1 # 2 | _ => 1 end.
Definition ex_mvrs : list card :=
  [mkcard false false 0 [7%Z] 0 0; mkcard true false 0 [] 0 1; mkcard false false 0 [8%Z] 0 1; mkcard false false 0 [7%Z] 0 2;
   mkcard false false 0 [7%Z] 0 2].
Definition ex_cvrs : list card :=
  [mkcard false true 1 [7%Z] 1 2;          (* pooled, 2-vote overstatement *)
   mkcard true false 0 [7%Z] 2 1;          (* phantom CVR, card not found *)
   mkcard false false 0 [7%Z; 8%Z] 3 2;    (* MVR lacks the contest *)
   mkcard false false 0 [8%Z] 4 2;         (* CVR does not list the contest: filtered out under style *)
   mkcard false false 0 [7%Z] 9 0].        (* understatement, but beyond the threshold 5 *)
Definition ex_asn (t : atype) (style : bool) (u0 : Xq) : asn :=
  mkasn exA 7 style t 5 (Fin (1 # 4)) 1 (Some [(1%Z, Fin (3 # 4))]) u0.
Example C06_comparison_nonvacuous :
  let a := ex_asn OneAudit true (Fin 1) in
  is_comparison (a_type a) = true /\ (1 # 2) <= a_ua a /\ (1 # 4) < 2 * a_ua a /\
  range_ok (a_A a) (a_ua a) (ex_mvrs ++ ex_cvrs) = true /\ means_ok (a_ua a) (a_means a) = true /\
  exists d u, mvrs_to_data a ex_mvrs ex_cvrs false = Ok (d, u) /\ length d = 3%nat.
Proof.
  simpl. repeat split; try (vm_compute; reflexivity); try (vm_compute; discriminate).
  eexists. eexists. split; vm_compute; reflexivity.
Qed.
Example C06_filter_nonvacuous :
  let a := ex_asn Comparison true (Fin 1) in
  length (filter (fun p => negb (a_style a) ||
                           (has_contest (a_cid a) (snd p) && (false || Qle_bool (c_snum (snd p)) (a_thr a))))
                 (combine ex_mvrs ex_cvrs)) = 3%nat
  /\ length (combine ex_mvrs ex_cvrs) = 5%nat.
Proof. vm_compute. split; reflexivity. Qed.
Example C06_polling_nonvacuous :
  let a := ex_asn Polling false (Fin 1) in a_type a = Polling /\ range_ok (a_A a) (a_ua a) ex_mvrs = true.
Proof. vm_compute. split; reflexivity. Qed.
(* two assertions whose tests hold stale bounds (1 and NaN) before set_p_values *)
Example C06_installed_nonvacuous :
  exists asns' calls,
    set_p_values [ex_asn Comparison true (Fin 1); ex_asn Polling false NaN] ex_mvrs ex_cvrs = Ok (asns', calls) /\
    map call_u calls = [Fin (8 # 7); Fin 1] /\ map a_test_u asns' = [Fin (8 # 7); Fin 1].
Proof.
  eexists. eexists. split; [vm_compute; reflexivity|]. split; vm_compute; reflexivity.
Qed.
