(* placeholder while the proofs are being built *)
From SV Require Import Compare.
Theorem C06_placeholder : True. Proof. exact I. Qed.
Print Assumptions C06_placeholder.
