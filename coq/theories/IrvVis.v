(* IrvVis.v — executable model of shangrla/core/IRVVisualisationUtils.py :
   buildRemainingTreeAsLists, treeListToTuple (+ buildConfTag), parseAssertions (+ findCandidateName,
   findListCandidateNames).  Candidates / contest ids / names are Z.  No proofs in this file. *)
From Coq Require Import ZArith List Bool Arith.
Import ListNotations.
Open Scope Z_scope.

Definition memZ (x : Z) (l : list Z) : bool := existsb (Z.eqb x) l.
Definition subsetZ (a b : list Z) : bool := forallb (fun x => memZ x b) a.
(* Python `set == set` on the elements of two lists *)
Definition seteqZ (a b : list Z) : bool := subsetZ a b && subsetZ b a.

(* the tuples parseAssertions builds:
   WOLosers entry (loser, winner, proved): "winner is never eliminated before loser"
   IRVElims entry (candidate, set(already_eliminated), proved):
        "candidate is not eliminated next when exactly that set has been eliminated" *)
Definition neb := (Z * Z * bool)%type.
Definition nen := (Z * list Z * bool)%type.
Definition neb_proved (a : neb) : bool := snd a.
Definition nen_proved (a : nen) : bool := snd a.

(* Python tuple equality, used by list.index *)
Definition neb_eqb (a b : neb) : bool :=
  match a, b with (l1, w1, p1), (l2, w2, p2) => Z.eqb l1 l2 && Z.eqb w1 w2 && Bool.eqb p1 p2 end.
Definition nen_eqb (a b : nen) : bool :=
  match a, b with (c1, e1, p1), (c2, e2, p2) => Z.eqb c1 c2 && seteqZ e1 e2 && Bool.eqb p1 p2 end.

(* list.index(x): position of the first element equal to x (x is always present where it is used) *)
Fixpoint index_of {A} (eqb : A -> A -> bool) (x : A) (l : list A) : nat :=
  match l with
  | [] => 0%nat
  | y :: r => if eqb y x then 0%nat else S (index_of eqb x r)
  end.

(* the tree in list form: [LeafNode(cand, NEBTagList, IRVTagList)]  or  [c, [subtrees]] *)
Inductive tree :=
| Leaf (c : Z) (nebtags irvtags : list (nat * bool))
| Node (c : Z) (children : list tree).

(* buildRemainingTreeAsLists L238-241: `c == loser[0] and loser[1] in S` *)
Definition neb_fires (c : Z) (S : list Z) (a : neb) : bool :=
  match a with (l, w, _) => Z.eqb c l && memZ w S end.
(* L245-248: `c == winner[0] and winner[1] == S` *)
Definition nen_fires (c : Z) (S : list Z) (a : nen) : bool :=
  match a with (x, E, _) => Z.eqb c x && seteqZ E S end.

Definition neb_tags (WO : list neb) (c : Z) (S : list Z) : list (nat * bool) :=
  map (fun a => (index_of neb_eqb a WO, neb_proved a)) (filter (neb_fires c S) WO).
Definition nen_tags (IRV : list nen) (c : Z) (S : list Z) : list (nat * bool) :=
  map (fun a => (index_of nen_eqb a IRV, nen_proved a)) (filter (nen_fires c S) IRV).

Definition is_nil {A} (l : list A) : bool := match l with [] => true | _ => false end.

(* buildRemainingTreeAsLists(c, S, WOLosers, IRVElims).  S is a Python set: a duplicate-free list here, children are
   generated in list order (the harness sorts the implementation's children by candidate; S is passed sorted).
   Recursion on S via `remove`, so explicit fuel = |S| (fuel exhaustion gives the distinguishable Node c []). *)
Fixpoint build (fuel : nat) (WO : list neb) (IRV : list nen) (c : Z) (S : list Z) : tree :=
  let nt := neb_tags WO c S in
  let it := nen_tags IRV c S in
  if negb (is_nil nt) || negb (is_nil it) then Leaf c nt it       (* pruneThisBranch *)
  else match S with
       | [] => Leaf c [] []                                        (* unpruned leaf *)
       | _ => match fuel with
              | O => Node c []
              | Datatypes.S f => Node c (map (fun c2 => build f WO IRV c2 (remove Z.eq_dec c2 S)) S)
              end
       end.

Definition build_tree (WO : list neb) (IRV : list nen) (c : Z) (S : list Z) : tree :=
  build (length S) WO IRV c S.

(* "***Unpruned leaf..." is what treeListToTuple prints for a LeafNode with two empty tag lists *)
Fixpoint has_unpruned_leaf (t : tree) : bool :=
  match t with
  | Leaf _ nt it => is_nil nt && is_nil it
  | Node _ ch => existsb has_unpruned_leaf ch
  end.

(* ---------- treeListToTuple ---------- *)
(* the tag string, structured: "NEB i,j\n<conf>" part, "IRV i,j\n<conf>" part, unpruned marker.
   conf = buildConfTag = logical OR of the proved flags -> Confirmed / Unconfirmed *)
Record rtag := mkRtag { t_neb : option (list nat * bool); t_irv : option (list nat * bool); t_unpruned : bool }.
Inductive rtree := RLeaf (c : Z) (tag : rtag) | RNode (c : Z) (children : list rtree).

Definition conf_tag (l : list (nat * bool)) : bool := existsb snd l.
Definition tag_part (l : list (nat * bool)) : option (list nat * bool) :=
  match l with [] => None | _ => Some (map fst l, conf_tag l) end.

Fixpoint tree_to_tuple (t : tree) : rtree :=
  match t with
  | Leaf c nt it => RLeaf c (mkRtag (tag_part nt) (tag_part it) (is_nil nt && is_nil it))
  | Node c ch => RNode c (map tree_to_tuple ch)
  end.

(* ---------- parseAssertions ---------- *)
(* a["proved"] in the JSON: absent, a JSON boolean, the string "True", another string *)
Inductive pv := PAbsent | PBool (b : bool) | PStrTrue | PStrOther.
(* one value of audit["assertions"] *)
Record araw := mkAraw { a_winner : Z; a_loser : Z; a_proved : pv }.
(* one element of audit["assertion_json"]; d_type = None when the key "assertion_type" is absent *)
Inductive atype := TWinnerOnly | TIrvElim | TOtherType.
Record adetail := mkAdetail { d_type : option atype; d_winner : Z; d_loser : Z; d_elim : list Z }.

(* L163-173 *)
Definition proved_of (rla : bool) (p : pv) : bool :=
  if rla then match p with PBool b => b | PAbsent => false | PStrTrue | PStrOther => true (* truthy string; not generated *) end
  else match p with PStrTrue => true | _ => false end.

(* loop L155-194 with its index into assertion_json (IndexError -> {}) *)
Fixpoint parse_loop (rla : bool) (ajson : list adetail) (i : nat) (asr : list araw)
         (WO : list neb) (IRV : list nen) : list neb * list nen :=
  match asr with
  | [] => (WO, IRV)
  | a :: r =>
      let proved := proved_of rla (a_proved a) in
      match nth_error ajson i with
      | Some d =>
          match d_type d with
          | Some TWinnerOnly => parse_loop rla ajson (S i) r (WO ++ [(d_loser d, d_winner d, proved)]) IRV
          | Some TIrvElim => parse_loop rla ajson (S i) r WO (IRV ++ [(d_winner d, d_elim d, proved)])
          | Some TOtherType => parse_loop rla ajson (S i) r WO IRV
          | None => parse_loop rla ajson (S i) r (WO ++ [(a_loser a, a_winner a, proved)]) IRV
          end
      | None => parse_loop rla ajson (S i) r (WO ++ [(a_loser a, a_winner a, proved)]) IRV
      end
  end.

(* one audited contest as it appears in either dialect *)
Record audit := mkAudit {
  au_winner : Z;
  au_candidates : list Z;       (* RLA log: audit["candidates"];  RAIRE: unused *)
  au_eliminated : list Z;       (* RAIRE: audit["eliminated"];  RLA log: unused *)
  au_assertions : list araw;    (* audit["assertions"].values() in order *)
  au_json : option (list adetail)   (* audit["assertion_json"] when present (RLA log only) *)
}.
(* the file: RLA log = {"Audit": {"seed":..}, "contests": {id: audit}} ; RAIRE = {"audits": [audit, ...]} *)
Inductive afile := RLALog (contests : list (Z * audit)) | Raire (audits : list audit).

Fixpoint find_contest (k : Z) (l : list (Z * audit)) : option audit :=
  match l with [] => None | (k', a) :: r => if Z.eqb k k' then Some a else find_contest k r end.
Fixpoint min_key (l : list (Z * audit)) (best : Z) : Z :=
  match l with [] => best | (k, _) :: r => min_key r (Z.min best k) end.

(* list.remove(x): first occurrence *)
Fixpoint remove_first (x : Z) (l : list Z) : list Z :=
  match l with [] => [] | y :: r => if Z.eqb x y then r else y :: remove_first x r end.

(* findCandidateName: first manifest entry whose Id matches, else "" (= -1) *)
Fixpoint find_name (id : Z) (manifest : list (Z * Z)) : Z :=
  match manifest with [] => -1 | (i, nm) :: r => if Z.eqb i id then nm else find_name id r end.

Definition dummy_audit := mkAudit 0 [] [] [] None.

(* parseAssertions(auditfile, candidatefile, contest_id) ->
   ((apparentWinner, name), [(nonwinner, name)...], WOLosers, IRVElims) *)
Definition parse_assertions (f : afile) (manifest : list (Z * Z)) (contest_id : option Z)
  : (Z * Z) * list (Z * Z) * list neb * list nen :=
  let '(rla, au, nonw) :=
    match f with
    | RLALog contests =>
        let first := match contests with [] => dummy_audit
                                    | (k, a) :: r => match find_contest (min_key r k) contests with Some x => x | None => a end end in
        let au := match contest_id with
                  | Some k => match find_contest k contests with Some a => a | None => first end
                  | None => first
                  end in
        (true, au, remove_first (au_winner au) (au_candidates au))
    | Raire audits => let au := hd dummy_audit audits in (false, au, au_eliminated au)
    end in
  let ajson := if rla then match au_json au with Some j => j | None => [] end else [] in
  let '(WO, IRV) := parse_loop rla ajson 0%nat (au_assertions au) [] [] in
  ((au_winner au, find_name (au_winner au) manifest), map (fun c => (c, find_name c manifest)) nonw, WO, IRV).
