(* PC17.v — placeholder while the proofs are being built *)
From SV Require Import Manifest.
Theorem C17_placeholder : True. Proof. exact I. Qed.
Print Assumptions C17_placeholder.
