(* PC17.v — property C17: each sample number maps to exactly one card; manifests account for every card.
   Model: Manifest.v (Dominion/Hart prep_manifest, sample_from_manifest, sample_from_cvrs); lemmas: Manifest_proofs.v.
   Vocabulary (Manifest_proofs.v): nonneg l = every size >= 0; before sizes b = cards in the batches before batch b
   (0-based b); base Dominion = 1, base Hart = 0; valid v sizes s = base v <= s < base v + total;
   in_batch v sizes b k = b is a batch and base v <= k < base v + size of b (1..size resp. 0..size-1);
   wf_prepared pm = sizes >= 0 and cum_cards their running total; picked v pm s p = p is what the loop body of
   sample_from_manifest computes for s (row, position from lookup_card); label r = (tabulator, batch). *)
From Coq Require Import ZArith List Bool Lia Permutation.
From SV Require Import Manifest Manifest_proofs.
Import ListNotations.
Open Scope Z_scope.

(* ---- the lookup: np.searchsorted(side="left") on [0]+cum_cards, 1-based numbers and positions (Dominion) *)
Theorem C17_lookup_dominion :
  forall sizes, nonneg sizes ->
    let cum := cumsum sizes in
    (forall s, 1 <= s < 1 + zsum sizes ->
       exists b k, lookup_card Dominion cum s = Some (b, k) /\
                   ((b < length sizes)%nat /\ 1 <= k < 1 + nth b sizes 0) /\ before sizes b + k = s) /\
    (forall s r, lookup_card Dominion cum s = Some r -> 1 <= s < 1 + zsum sizes) /\
    (forall s1 s2 r, lookup_card Dominion cum s1 = Some r -> lookup_card Dominion cum s2 = Some r -> s1 = s2) /\
    (forall b k, (b < length sizes)%nat /\ 1 <= k < 1 + nth b sizes 0 ->
       lookup_card Dominion cum (before sizes b + k) = Some (b, k)) /\
    (forall s b k, lookup_card Dominion cum s = Some (b, k) -> 0 < nth b sizes 0).
Proof. exact (lookup_bijection_holds Dominion). Qed.
Print Assumptions C17_lookup_dominion.

Example C17_lookup_dominion_nonvacuous :
  nonneg [0; 2; 0; 0; 3; 0] /\
  map (lookup_card Dominion (cumsum [0; 2; 0; 0; 3; 0])) [0; 1; 2; 3; 4; 5; 6]
  = [None; Some (1%nat, 1); Some (1%nat, 2); Some (4%nat, 1); Some (4%nat, 2); Some (4%nat, 3); None].
Proof. split; [repeat (constructor; [lia|]); constructor | vm_compute; reflexivity]. Qed.

(* ---- the lookup: side="right", 0-based numbers and positions (Hart) *)
Theorem C17_lookup_hart :
  forall sizes, nonneg sizes ->
    let cum := cumsum sizes in
    (forall s, 0 <= s < 0 + zsum sizes ->
       exists b k, lookup_card Hart cum s = Some (b, k) /\
                   ((b < length sizes)%nat /\ 0 <= k < 0 + nth b sizes 0) /\ before sizes b + k = s) /\
    (forall s r, lookup_card Hart cum s = Some r -> 0 <= s < 0 + zsum sizes) /\
    (forall s1 s2 r, lookup_card Hart cum s1 = Some r -> lookup_card Hart cum s2 = Some r -> s1 = s2) /\
    (forall b k, (b < length sizes)%nat /\ 0 <= k < 0 + nth b sizes 0 ->
       lookup_card Hart cum (before sizes b + k) = Some (b, k)) /\
    (forall s b k, lookup_card Hart cum s = Some (b, k) -> 0 < nth b sizes 0).
Proof. exact (lookup_bijection_holds Hart). Qed.
Print Assumptions C17_lookup_hart.

Example C17_lookup_hart_nonvacuous :
  nonneg [0; 2; 0; 0; 3; 0] /\
  map (lookup_card Hart (cumsum [0; 2; 0; 0; 3; 0])) [-1; 0; 1; 2; 3; 4; 5]
  = [None; Some (1%nat, 0); Some (1%nat, 1); Some (4%nat, 0); Some (4%nat, 1); Some (4%nat, 2); None].
Proof. split; [repeat (constructor; [lia|]); constructor | vm_compute; reflexivity]. Qed.

(* ---- preparing a manifest *)
Theorem C17_prep :
  forall v m max_cards n_cvrs,
    let total := zsum (sizes m) in
    (max_cards < total \/ total < n_cvrs -> prep_manifest v m max_cards n_cvrs = Err EAssert) /\
    (n_cvrs <= total <= max_cards ->
       exists pm, prep_manifest v m max_cards n_cvrs = Ok (pm, total, max_cards - total) /\
         zsum (sizes (pm_rows pm)) = max_cards /\
         pm_cum pm = cumsum (sizes (pm_rows pm)) /\
         (total = max_cards -> pm_rows pm = m) /\
         (total < max_cards -> pm_rows pm = m ++ [phantom_row v (max_cards - total)]) /\
         (nonneg (sizes m) -> nonneg (sizes (pm_rows pm)))).
Proof. exact prep_holds. Qed.
Print Assumptions C17_prep.

Definition ex_rows : list row := [mkrow 200 100 1 10 0; mkrow 201 101 2 11 2; mkrow 202 102 1 12 0; mkrow 203 103 3 13 1].
Example C17_prep_nonvacuous :
  prep_manifest Dominion ex_rows 5 3 = Ok (mkprep (ex_rows ++ [mkrow (-1) (-1) 0 1 2]) [0; 2; 2; 3; 5], 3, 2)
  /\ prep_manifest Hart ex_rows 3 3 = Ok (mkprep ex_rows [0; 2; 2; 3], 3, 0)
  /\ prep_manifest Hart ex_rows 2 0 = Err EAssert /\ prep_manifest Dominion ex_rows 9 4 = Err EAssert.
Proof. vm_compute. repeat split. Qed.

(* ---- sample_from_manifest: succeeds exactly on valid numbers; one card per number; phantom records;
        selection order i and serial s+1 recorded under the card's identifier *)
Theorem C17_order :
  forall v pm sample, wf_prepared pm ->
    (Forall (valid v (sizes (pm_rows pm))) sample <-> exists out, sample_from_manifest v pm sample = Ok out) /\
    forall cards so mv, sample_from_manifest v pm sample = Ok (cards, so, mv) ->
      exists ps, Forall2 (picked v pm) sample ps /\ map p_i ps = zseq 0 (length sample) /\
        Permutation cards (map (card_of v) ps) /\
        mv = map pick_id (filter (fun p => r_tab (p_row p) =? phantom_tab) ps) /\
        (NoDup sample -> NoDup (map label (pm_rows pm)) ->
           so = map (fun p => (pick_id p, (p_i p, p_s p + 1))) ps).
Proof. exact sfm_holds. Qed.
Print Assumptions C17_order.

Definition ex_pm : prepared := mkprep (ex_rows ++ [mkrow (-1) (-1) 0 1 2]) [0; 2; 2; 3; 5].
Example C17_order_nonvacuous :
  wf_prepared ex_pm /\ NoDup [5; 1; 3; 2] /\ NoDup (map label (pm_rows ex_pm)) /\
  sample_from_manifest Dominion ex_pm [5; 1; 3; 2]
  = Ok ([[201; 101; 2; 11; 1; 2; 11; 1; 1]; [201; 101; 2; 11; 2; 2; 11; 2; 2]; [203; 103; 3; 13; 1; 3; 13; 1; 3];
         [-1; -1; 0; 1; 2; 0; 1; 2; 5]],
        [((0, 1, 2), (0, 6)); ((2, 11, 1), (1, 2)); ((3, 13, 1), (2, 4)); ((2, 11, 2), (3, 3))],
        [(0, 1, 2)]).
Proof.
  split; [split; [simpl; repeat (constructor; [lia|]); constructor | reflexivity]|].
  split; [repeat (constructor; [simpl; intuition lia|]); constructor|].
  split; [unfold label; simpl; repeat (constructor; [simpl; intuition congruence|]); constructor | vm_compute; reflexivity].
Qed.

(* ---- a phantom manual record exactly for the cards that fall in the appended phantom batch *)
Theorem C17_phantom_iff :
  forall v m max_cards n_cvrs pm mc ph sample cards so mv,
    nonneg (sizes m) -> Forall (fun r => r_tab r <> phantom_tab) m ->
    prep_manifest v m max_cards n_cvrs = Ok (pm, mc, ph) ->
    sample_from_manifest v pm sample = Ok (cards, so, mv) ->
    mv = map (fun s => (phantom_tab, 1, s - mc)) (filter (fun s => base v + mc <=? s) sample).
Proof. exact phantom_holds. Qed.
Print Assumptions C17_phantom_iff.

Example C17_phantom_iff_nonvacuous :
  nonneg (sizes ex_rows) /\ Forall (fun r => r_tab r <> phantom_tab) ex_rows /\
  prep_manifest Hart ex_rows 5 3 = Ok (mkprep (ex_rows ++ [mkrow (-1) 0 0 1 2]) [0; 2; 2; 3; 5], 3, 2) /\
  (exists cards so, sample_from_manifest Hart (mkprep (ex_rows ++ [mkrow (-1) 0 0 1 2]) [0; 2; 2; 3; 5]) [4; 0; 3; 2]
                    = Ok (cards, so, [(0, 1, 1); (0, 1, 0)])).
Proof.
  split; [simpl; repeat (constructor; [lia|]); constructor|].
  split; [repeat (constructor; [simpl; unfold phantom_tab; lia|]); constructor|].
  split; [vm_compute; reflexivity|]. eexists. eexists. vm_compute. reflexivity.
Qed.

(* ---- sample_from_cvrs: the sampled CVRs in selection order, matching identifiers, phantom records for phantoms *)
Theorem C17_from_cvrs :
  (forall v rows cvrs sample cards so cs mv,
     sample_from_cvrs v rows cvrs sample = Ok (cards, so, cs, mv) ->
     exists cl,
       Forall2 (fun s c => 0 <= s /\ nth_error cvrs (Z.to_nat s) = Some c) sample cl /\
       cs = combine sample (map v_id cl) /\
       mv = map v_id (filter v_phantom cl) /\
       (exists cardl, Permutation cards cardl /\
          Forall2 (fun c card => cvr_card v rows c = Ok card /\ last card 0 = v_id c) cl cardl) /\
       (NoDup (map v_id cl) ->
          so = combine (map v_id cl) (combine (zseq 0 (length sample)) (map (fun s => s + 1) sample)))) /\
  (forall v rows cvrs sample,
     Forall (fun s => 0 <= s /\ exists c, nth_error cvrs (Z.to_nat s) = Some c /\ has_batch v rows c) sample ->
     exists out, sample_from_cvrs v rows cvrs sample = Ok out).
Proof. exact (conj sfc_holds sfc_total). Qed.
Print Assumptions C17_from_cvrs.

Definition ex_cvrs : list cvr :=
  [mkcvr 51 2 11 1 1 false; mkcvr 52 2 11 2 2 false; mkcvr 53 3 13 1 1 false; mkcvr 90 0 1 1 1 true].
Example C17_from_cvrs_nonvacuous :
  sample_from_cvrs Dominion (pm_rows ex_pm) ex_cvrs [3; 0; 2]
  = Ok ([[201; 101; 2; 11; 1; 51]; [203; 103; 3; 13; 1; 53]; [empty_str; empty_str; 0; 1; 1; 90]],
        [(90, (0, 4)); (51, (1, 1)); (53, (2, 3))], [(3, 90); (0, 51); (2, 53)], [90]).
Proof. vm_compute. reflexivity. Qed.
