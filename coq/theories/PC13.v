(* PC13.v — property C13: shipped estimators and bets keep every martingale factor non-negative.
   Only statements, each closed by `exact`. Model: NNM.v. np.sqrt is any function with 0 < x -> 0 < sqrt x, 0 <= sqrt x. *)
From SV Require Import NNM NNM_ranges NNM_spec NNM_hist NNM_wf.
Open Scope Q_scope.

Theorem C13_shrink_trunc_range : forall sqrtq, (forall x, 0 < x -> 0 < sqrtq x) ->
  forall N t u eta c d f minsd, 0 < u -> 0 <= eta -> 0 < c -> 0 < d -> 0 <= f -> 0 < minsd ->
  forall xs, in_range u xs ->
  Forall (fun e => 0 <= e <= u) (shrink_trunc sqrtq N t u eta c d f minsd xs).
Proof. exact shrink_trunc_range. Qed.
Print Assumptions C13_shrink_trunc_range.

(* strictly above the null conditional mean whenever that mean is below u(1 - 2^-52); the one-ulp gap to "below u"
   is the truncation constant u*(1-eps) of the code, stated here rather than hidden *)
Theorem C13_shrink_trunc_above_mu : forall sqrtq, (forall x, 0 < x -> 0 < sqrtq x) ->
  forall N t u eta c d f minsd, 0 < u -> 0 <= eta -> 0 < c -> 0 < d -> 0 <= f -> 0 < minsd ->
  forall xs, in_range u xs ->
  Forall2 (fun e m => m < u * (1 - eps_np) -> m < e)
          (shrink_trunc sqrtq N t u eta c d f minsd xs) (mu_list N t xs).
Proof. exact shrink_trunc_above_mu. Qed.
Print Assumptions C13_shrink_trunc_above_mu.

Theorem C13_fixed_alt_range : forall N u eta xs, 0 <= u ->
  Forall (fun e => 0 <= e <= u) (fixed_alternative_mean N u eta xs).
Proof. exact fixed_alt_range. Qed.
Print Assumptions C13_fixed_alt_range.

Theorem C13_optimal_comparison_range : forall u p2, 0 <= u -> 0 <= optimal_comparison_eta u p2 <= u.
Proof. exact optimal_comparison_range. Qed.
Print Assumptions C13_optimal_comparison_range.

Theorem C13_fixed_bet_range : forall lam u xs, 0 < u -> 0 <= lam <= 1 / u ->
  Forall (fun l => 0 <= l /\ forall m, 0 < m <= u -> l <= 1 / m) (fixed_bet lam xs).
Proof. exact fixed_bet_range. Qed.
Print Assumptions C13_fixed_bet_range.

(* aGRAPA: 0 <= lam_j, and lam_j < 1/mu_j wherever mu_j > 0 (indeed <= c_j/mu_j with c_j <= cmax < 1); never NaN
   because every output is a rational *)
Theorem C13_agrapa_range : forall sqrtq, (forall x, 0 <= sqrtq x) ->
  forall N t lam c0 cmax cgrow, 0 < c0 -> c0 <= cmax -> cmax < 1 -> 0 <= cgrow ->
  forall xs, Forall2 (fun l m => 0 <= l /\ (0 < m -> l < 1 / m))
                     (agrapa sqrtq N t lam c0 cmax cgrow xs) (mu_list N t xs).
Proof. exact agrapa_range. Qed.
Print Assumptions C13_agrapa_range.

(* hence no multiplicative factor of either martingale can be negative, whatever the next observation in [0,u] is *)
Theorem C13_alpha_factor_nonneg : forall u x e m,
  0 < m -> m < u -> 0 <= x <= u -> m <= e <= u -> 0 <= alpha_factor_q u x e m.
Proof. exact alpha_factor_q_nonneg. Qed.
Print Assumptions C13_alpha_factor_nonneg.

Theorem C13_alpha_truncation : forall u est m, m <= u -> m <= clamp_eta u est m <= u.
Proof. exact clamp_eta_range. Qed.
Print Assumptions C13_alpha_truncation.

Example C13_sqrt_instance : (forall x, 0 < x -> 0 < sqrt_exec x) /\ (forall x, 0 <= sqrt_exec x).
Proof. split; [exact sqrt_exec_pos | exact sqrt_exec_nonneg]. Qed.
