(* RaireAlgo_inv.v — the loop invariant of RaireAlgo.search: every complete elimination order ending in a candidate
   other than the reported winner keeps a "safe" frontier entry whose tail is a suffix of it.  "Safe" is what makes
   the invariant inductive: the entry's node is frozen (not expandable, or its estimate / its best ancestor's
   estimate is <= the lower bound, so that it is never expanded again) or the order does not continue through one
   of the node's already-explored children (those were created by a dive and are covered by other entries). *)
From SV Require Import RaireCheck RaireCheck_proofs RaireAlgo RaireAlgo_proofs.
Open Scope nat_scope.

(* ------------------------------------------------------------------ heap basics *)
Lemma get_cons_old n h i : i < length h -> get (n :: h) i = get h i.
Proof.
  intro Hi. unfold get. simpl length.
  replace (S (length h) - 1 - i) with (S (length h - 1 - i)) by lia. reflexivity.
Qed.
Lemma get_cons_new n h : get (n :: h) (length h) = n.
Proof. unfold get. simpl length. replace (S (length h) - 1 - length h) with 0 by lia. reflexivity. Qed.

Lemma upd_length h id f : length (upd h id f) = length h.
Proof. unfold upd. apply map_length. Qed.

Lemma get_upd_raw h id f i : i < length h ->
  get (upd h id f) i = (if Nat.eqb (n_id (get h i)) id then f (get h i) else get h i).
Proof.
  intro Hi. unfold get. rewrite upd_length. unfold upd.
  set (g := fun n => if Nat.eqb (n_id n) id then f n else n).
  rewrite (nth_indep (map g h) dummy_node (g dummy_node)) by (rewrite map_length; lia).
  rewrite map_nth. reflexivity.
Qed.

(* ids are positions *)
Definition hwf (h : heap) : Prop := forall i, i < length h -> n_id (get h i) = i.
Lemma hwf_cons n h : hwf h -> n_id n = length h -> hwf (n :: h).
Proof.
  intros Hh Hn i Hi. simpl in Hi. destruct (Nat.eq_dec i (length h)) as [He|He].
  - subst i. rewrite get_cons_new. exact Hn.
  - rewrite get_cons_old by lia. apply Hh. lia.
Qed.
Lemma get_upd h id f i : hwf h -> i < length h ->
  get (upd h id f) i = (if Nat.eqb i id then f (get h i) else get h i).
Proof. intros Hh Hi. rewrite get_upd_raw by exact Hi. rewrite (Hh i Hi). reflexivity. Qed.
Lemma hwf_upd h id f : hwf h -> (forall n, n_id (f n) = n_id n) -> hwf (upd h id f).
Proof.
  intros Hh Hf i Hi. rewrite upd_length in Hi. rewrite get_upd by assumption.
  destruct (Nat.eqb i id); [rewrite Hf|]; apply Hh; exact Hi.
Qed.

(* ------------------------------------------------------------------ frontier membership *)
Lemma ins_sorted_in e x fr y : In y (ins_sorted e x fr) <-> y = x \/ In y fr.
Proof.
  induction fr as [|z r IH]; cbn [ins_sorted In].
  - split; [intros [H|[]]; left; symmetry; exact H | intros [H|[]]; left; symmetry; exact H].
  - destruct (ole (fe_est z) (Some e)); cbn [In].
    + split; [intros [H|H]; [left; symmetry; exact H | right; exact H] | intros [H|H]; [left; symmetry; exact H | right; exact H]].
    + rewrite IH. split; [intros [H|[H|H]]; auto | intros [H|[H|H]]; auto].
Qed.
Lemma insert_node_in fr n y : In y (insert_node fr n) <-> y = fe_of n \/ In y fr.
Proof.
  unfold insert_node. destruct (negb (n_exp n)).
  - rewrite in_app_iff. simpl. split; [intros [H|[H|[]]]; auto | intros [H|H]; auto].
  - destruct (n_est n) as [e|].
    + apply ins_sorted_in.
    + simpl. split; [intros [H|H]; auto | intros [H|H]; auto].
Qed.
Lemma is_desc_ends t anc : is_desc t anc = true -> ends_with anc t.
Proof.
  unfold is_desc. intro H. apply andb_true_iff in H. destruct H as [_ H]. apply list_eqb_eq in H.
  exists (firstn (length t - length anc) t). rewrite <- H at 2. symmetry. apply firstn_skipn.
Qed.
Lemma replace_desc_in fr a y :
  In y (replace_desc fr a) <-> y = fe_of a \/ (In y fr /\ is_desc (fe_tail y) (n_tail a) = false).
Proof.
  unfold replace_desc. rewrite insert_node_in, filter_In. split.
  - intros [H|[H1 H2]]; [left; exact H | right; split; [exact H1|]]. apply negb_true_iff in H2. exact H2.
  - intros [H|[H1 H2]]; [left; exact H | right; split; [exact H1|]]. apply negb_true_iff. exact H2.
Qed.
Lemma ends_with_trans a b c : ends_with a b -> ends_with b c -> ends_with a c.
Proof. intros [p1 H1] [p2 H2]. exists (p2 ++ p1). subst. apply app_assoc. Qed.
Lemma ends_with_refl a : ends_with a a.
Proof. exists []. reflexivity. Qed.
Lemma ends_with_cons c a : ends_with a (c :: a).
Proof. exists [c]. reflexivity. Qed.

(* ------------------------------------------------------------------ estimates and the lower bound *)
Lemma ole_mono e lb lb' : (lb <= lb')%Q -> ole e (Some lb) = true -> ole e (Some lb') = true.
Proof.
  unfold ole. intro Hle. destruct e as [x|]; [|discriminate]. intro H.
  apply Qle_bool_iff in H. apply Qle_bool_iff. lra.
Qed.
Lemma Qmaxb_l a b : (a <= Qmaxb a b)%Q.
Proof. destruct (Qmaxb_spec a b) as [[H1 H2]|[H1 H2]]; rewrite H2; lra. Qed.
Lemma Qmaxb_r a b : (b <= Qmaxb a b)%Q.
Proof. destruct (Qmaxb_spec a b) as [[H1 H2]|[H1 H2]]; rewrite H2; lra. Qed.

Lemma last_case {A} (l : list A) : l = [] \/ exists l' a, l = l' ++ [a].
Proof. destruct l as [|x r]; [left; reflexivity | right]. destruct (@exists_last _ (x :: r)) as [l' [a H]]; [discriminate|]. eauto. Qed.
Lemma app_eq_len {A} (a a' b b' : list A) : length a = length a' -> a ++ b = a' ++ b' -> a = a' /\ b = b'.
Proof.
  revert a'. induction a as [|x r IH]; destruct a' as [|y s]; simpl; intros Hl H; try discriminate.
  - split; [reflexivity | exact H].
  - inversion H. destruct (IH s) as [G1 G2]; [lia | assumption |]. subst. split; reflexivity.
Qed.

Section SearchInv.
  Variable dfun : nat -> nat -> nat -> Q.
  Variable cands : list cand.
  Variable p : profile.
  Variable tot : nat.
  Variable hint : list cand.
  Variable nebs : list (cand * cand * option asr).
  Variable winner : cand.
  Hypothesis Hnd : NoDup cands.

  Definition alt (pi : list cand) : Prop := Permutation cands pi /\ ends_in_other winner pi = true.

  (* heap invariants *)
  Definition aok (h : heap) : Prop :=
    forall i a, i < length h -> n_anc (get h i) = Some a ->
                a < length h /\ ends_with (n_tail (get h a)) (n_tail (get h i)).
  Definition expok (h : heap) : Prop :=
    forall i, i < length h -> n_exp (get h i) = true -> length (n_tail (get h i)) <> length cands.
  Definition HI (h : heap) : Prop := hwf h /\ aok h /\ expok h.
  (* frontier entries denote heap nodes *)
  Definition FV (h : heap) (fr : list fentry) : Prop :=
    forall x, In x fr -> fe_id x < length h /\ fe_tail x = n_tail (get h (fe_id x)).

  (* a node that will not be expanded when it is popped *)
  Definition frozen (h : heap) (lb : Q) (N : node) : Prop :=
    n_exp N = false \/ ole (n_est N) (Some lb) = true \/
    (exists a, n_anc N = Some a /\ ole (n_est (get h a)) (Some lb) = true).
  Definition safe (h : heap) (lb : Q) (i : nat) (pi : list cand) : Prop :=
    ends_with (n_tail (get h i)) pi /\
    (frozen h lb (get h i) \/
     forall pre c, pi = pre ++ c :: n_tail (get h i) -> ~ In c (n_explored (get h i))).
  Definition scov (h : heap) (fr : list fentry) (lb : Q) (pi : list cand) : Prop :=
    exists x, In x fr /\ safe h lb (fe_id x) pi.
  Definition SC (h : heap) (fr : list fentry) (lb : Q) : Prop := forall pi, alt pi -> scov h fr lb pi.

  Lemma frozen_lb h lb lb' N : (lb <= lb')%Q -> frozen h lb N -> frozen h lb' N.
  Proof.
    intros Hle [H|[H|[a [H1 H2]]]]; [left; exact H | right; left; eapply ole_mono; eauto |].
    right. right. exists a. split; [exact H1 | eapply ole_mono; eauto].
  Qed.
  Lemma safe_lb h lb lb' i pi : (lb <= lb')%Q -> safe h lb i pi -> safe h lb' i pi.
  Proof. intros Hle [H1 [H2|H2]]; split; auto. left. eapply frozen_lb; eauto. Qed.
  Lemma scov_lb h fr lb lb' pi : (lb <= lb')%Q -> scov h fr lb pi -> scov h fr lb' pi.
  Proof. intros Hle [x [H1 H2]]. exists x. split; [exact H1 | eapply safe_lb; eauto]. Qed.

  (* heap growth by a new node *)
  Lemma safe_cons n h lb i pi : aok h -> i < length h -> safe h lb i pi -> safe (n :: h) lb i pi.
  Proof.
    intros Ha Hi [H1 H2]. unfold safe. rewrite get_cons_old by exact Hi. split; [exact H1|].
    destruct H2 as [H2|H2]; [left | right; exact H2].
    destruct H2 as [H|[H|[a [Ha1 Ha2]]]]; [left; exact H | right; left; exact H |].
    right. right. exists a. split; [exact Ha1|]. destruct (Ha i a Hi Ha1) as [Hlt _].
    rewrite get_cons_old by exact Hlt. exact Ha2.
  Qed.

  (* heap update of one node that keeps tail, anc, est and only lowers expandable *)
  Definition keeps (f : node -> node) : Prop :=
    forall n, n_id (f n) = n_id n /\ n_tail (f n) = n_tail n /\ n_anc (f n) = n_anc n /\ n_est (f n) = n_est n /\
              (n_exp n = false -> n_exp (f n) = false) /\ (n_exp (f n) = true -> n_exp n = true).
  Lemma keeps_set_exp_false : keeps set_exp_false.
  Proof. intro n. unfold set_exp_false. simpl. repeat split; auto. discriminate. Qed.
  Lemma keeps_add_explored c : keeps (add_explored c).
  Proof. intro n. unfold add_explored. simpl. repeat split; auto. Qed.

  Lemma HI_upd h id f : HI h -> keeps f -> HI (upd h id f).
  Proof.
    intros [Hw [Ha He]] Hk. split; [apply hwf_upd; [exact Hw | intro n; apply Hk]|]. split.
    - intros i a Hi. rewrite upd_length in Hi. rewrite get_upd by assumption.
      assert (Hanc : n_anc (if Nat.eqb i id then f (get h i) else get h i) = n_anc (get h i))
        by (destruct (Nat.eqb i id); [apply Hk | reflexivity]).
      assert (Htl : n_tail (if Nat.eqb i id then f (get h i) else get h i) = n_tail (get h i))
        by (destruct (Nat.eqb i id); [apply Hk | reflexivity]).
      rewrite Hanc, Htl. intro H. destruct (Ha i a Hi H) as [Hlt Hend]. rewrite upd_length. split; [exact Hlt|].
      rewrite get_upd by assumption.
      assert (Htl2 : n_tail (if Nat.eqb a id then f (get h a) else get h a) = n_tail (get h a))
        by (destruct (Nat.eqb a id); [apply Hk | reflexivity]).
      rewrite Htl2. exact Hend.
    - intros i Hi. rewrite upd_length in Hi. rewrite get_upd by assumption.
      destruct (Nat.eqb i id).
      + destruct (Hk (get h i)) as [_ [Ht [_ [_ [_ Hx]]]]]. rewrite Ht. intro H. apply He; [exact Hi | apply Hx; exact H].
      + apply He. exact Hi.
  Qed.

  Lemma frozen_upd h lb id f i : hwf h -> aok h -> keeps f -> i < length h ->
    frozen h lb (get h i) -> frozen (upd h id f) lb (get (upd h id f) i).
  Proof.
    intros Hw Ha Hk Hi Hf. rewrite get_upd by assumption.
    assert (Hcore : forall j, j < length h ->
              n_est (get (upd h id f) j) = n_est (get h j)).
    { intros j Hj. rewrite get_upd by assumption. destruct (Nat.eqb j id); [apply Hk | reflexivity]. }
    destruct Hf as [H|[H|[a [H1 H2]]]].
    - left. destruct (Nat.eqb i id); [apply Hk; exact H | exact H].
    - right. left. destruct (Nat.eqb i id); [|exact H]. destruct (Hk (get h i)) as [_ [_ [_ [He _]]]]. rewrite He. exact H.
    - right. right. exists a. destruct (Ha i a Hi H1) as [Hlt _]. split.
      + destruct (Nat.eqb i id); [|exact H1]. destruct (Hk (get h i)) as [_ [_ [Hc _]]]. rewrite Hc. exact H1.
      + rewrite (Hcore a Hlt). exact H2.
  Qed.

  Lemma FV_cons n h fr : FV h fr -> FV (n :: h) fr.
  Proof.
    intros H x Hx. destruct (H x Hx) as [H1 H2]. simpl length. split; [lia|]. rewrite get_cons_old by exact H1. exact H2.
  Qed.
  Lemma scov_cons n h fr lb pi : aok h -> FV h fr -> scov h fr lb pi -> scov (n :: h) fr lb pi.
  Proof.
    intros Ha Hf [x [H1 H2]]. exists x. split; [exact H1|]. apply safe_cons; [exact Ha | apply (Hf x H1) | exact H2].
  Qed.

  Definition nvalid (h : heap) (n : node) : Prop := n_id n < length h /\ get h (n_id n) = n.
  Lemma FV_insert h fr n : FV h fr -> nvalid h n -> FV h (insert_node fr n).
  Proof.
    intros Hf [Hn1 Hn2] x Hx. apply insert_node_in in Hx. destruct Hx as [Hx|Hx]; [|apply Hf; exact Hx].
    subst x. unfold fe_of, fe_id, fe_tail. simpl. rewrite Hn2. split; [exact Hn1 | reflexivity].
  Qed.
  Lemma scov_insert h fr n lb pi : scov h fr lb pi -> scov h (insert_node fr n) lb pi.
  Proof. intros [x [H1 H2]]. exists x. split; [apply insert_node_in; right; exact H1 | exact H2]. Qed.
  Lemma scov_insert_new h fr n lb pi : safe h lb (n_id n) pi -> scov h (insert_node fr n) lb pi.
  Proof. intro H. exists (fe_of n). split; [apply insert_node_in; left; reflexivity | exact H]. Qed.

  Lemma FV_replace h fr a : FV h fr -> nvalid h a -> FV h (replace_desc fr a).
  Proof.
    intros Hf [Hn1 Hn2] x Hx. apply replace_desc_in in Hx. destruct Hx as [Hx|[Hx _]]; [|apply Hf; exact Hx].
    subst x. unfold fe_of, fe_id, fe_tail. simpl. rewrite Hn2. split; [exact Hn1 | reflexivity].
  Qed.
  Lemma scov_replace_new h fr a lb pi : nvalid h a -> frozen h lb a -> ends_with (n_tail a) pi ->
    scov h (replace_desc fr a) lb pi.
  Proof.
    intros [Hn1 Hn2] Hfz He. exists (fe_of a). split; [apply replace_desc_in; left; reflexivity|].
    unfold safe, fe_of, fe_id. simpl. rewrite Hn2. split; [exact He | left; exact Hfz].
  Qed.
  Lemma scov_replace h fr a lb pi : FV h fr -> nvalid h a -> frozen h lb a ->
    scov h fr lb pi -> scov h (replace_desc fr a) lb pi.
  Proof.
    intros Hf Hv Hfz [x [H1 H2]]. destruct (is_desc (fe_tail x) (n_tail a)) eqn:E.
    - apply scov_replace_new; [exact Hv | exact Hfz|]. apply is_desc_ends in E.
      destruct (Hf x H1) as [_ Ht]. rewrite Ht in E. eapply ends_with_trans; [exact E | apply H2].
    - exists x. split; [apply replace_desc_in; right; split; assumption | exact H2].
  Qed.

  (* updates of one node *)
  Lemma FV_upd h fr id f : hwf h -> keeps f -> FV h fr -> FV (upd h id f) fr.
  Proof.
    intros Hw Hk Hf x Hx. destruct (Hf x Hx) as [H1 H2]. rewrite upd_length. split; [exact H1|].
    rewrite get_upd by assumption. destruct (Nat.eqb (fe_id x) id); [|exact H2].
    destruct (Hk (get h (fe_id x))) as [_ [Ht _]]. rewrite Ht. exact H2.
  Qed.
  Lemma tail_upd h id f i : hwf h -> keeps f -> i < length h -> n_tail (get (upd h id f) i) = n_tail (get h i).
  Proof. intros Hw Hk Hi. rewrite get_upd by assumption. destruct (Nat.eqb i id); [apply Hk | reflexivity]. Qed.
  Lemma explored_upd_other h id f i : hwf h -> i < length h -> i <> id ->
    n_explored (get (upd h id f) i) = n_explored (get h i).
  Proof. intros Hw Hi Hne. rewrite get_upd by assumption. apply Nat.eqb_neq in Hne. rewrite Hne. reflexivity. Qed.

  (* an update that keeps explored keeps safety *)
  Lemma safe_upd_same h lb id f i pi : hwf h -> aok h -> keeps f -> (forall n, n_explored (f n) = n_explored n) ->
    i < length h -> safe h lb i pi -> safe (upd h id f) lb i pi.
  Proof.
    intros Hw Ha Hk Hex Hi [H1 H2]. unfold safe. rewrite (tail_upd h id f i Hw Hk Hi). split; [exact H1|].
    destruct H2 as [H2|H2]; [left; apply frozen_upd; assumption | right].
    intros pre c Hp. rewrite get_upd by assumption. destruct (Nat.eqb i id); [rewrite Hex|]; eapply H2; eauto.
  Qed.
  Lemma scov_upd_same h fr lb id f pi : hwf h -> aok h -> keeps f -> (forall n, n_explored (f n) = n_explored n) ->
    FV h fr -> scov h fr lb pi -> scov (upd h id f) fr lb pi.
  Proof.
    intros Hw Ha Hk Hex Hf [x [H1 H2]]. exists x. split; [exact H1|].
    apply safe_upd_same; try assumption. apply (Hf x H1).
  Qed.

  (* adding an explored child c to node id: safety survives unless the order goes through that child *)
  Lemma safe_upd_explored h lb id c i pi : hwf h -> aok h -> i < length h -> id < length h ->
    safe h lb i pi ->
    safe (upd h id (add_explored c)) lb i pi \/ ends_with (c :: n_tail (get h id)) pi.
  Proof.
    intros Hw Ha Hi Hid [H1 H2].
    pose proof (keeps_add_explored c) as Hk.
    destruct H2 as [H2|H2].
    - left. unfold safe. rewrite (tail_upd h id _ i Hw Hk Hi). split; [exact H1|]. left. apply frozen_upd; assumption.
    - destruct (Nat.eq_dec i id) as [He|Hne].
      + subst i. destruct H1 as [pre0 Hpre0].
        destruct (last_case pre0) as [Hnil|[pre [c0 Hc0]]].
        * left. unfold safe. rewrite (tail_upd h id _ id Hw Hk Hi). split; [exists pre0; exact Hpre0|]. right.
          intros pre' c' Hp. exfalso. subst pre0. simpl in Hpre0. rewrite Hpre0 in Hp.
          apply (f_equal (@length cand)) in Hp. rewrite app_length in Hp. simpl in Hp. lia.
        * subst pre0. rewrite <- app_assoc in Hpre0. simpl in Hpre0.
          destruct (Nat.eq_dec c0 c) as [Hcc|Hcc].
          -- right. subst c0. exists pre. exact Hpre0.
          -- left. unfold safe. rewrite (tail_upd h id _ id Hw Hk Hi). split; [exists (pre ++ [c0]); rewrite <- app_assoc; exact Hpre0|].
             right. intros pre' c' Hp. rewrite get_upd by assumption. rewrite Nat.eqb_refl. unfold add_explored. simpl.
             intro Hin. apply in_app_or in Hin.
             assert (Hc' : c' = c0).
             { rewrite Hpre0 in Hp.
               assert (Hl : length pre = length pre').
               { apply (f_equal (@length cand)) in Hp. rewrite !app_length in Hp. simpl in Hp. lia. }
               apply app_eq_len in Hp; [|exact Hl]. destruct Hp as [_ Hp]. inversion Hp. reflexivity. }
             subst c'. destruct Hin as [Hin|[Hin|[]]]; [eapply H2; eauto | apply Hcc; symmetry; exact Hin].
      + left. unfold safe. rewrite (tail_upd h id _ i Hw Hk Hi). split; [exact H1|]. right.
        intros pre c' Hp. rewrite explored_upd_other by assumption. eapply H2; eauto.
  Qed.


  (* ---------------------------------------------------------------- manage_node *)
  Lemma nvalid_get h i : hwf h -> i < length h -> nvalid h (get h i).
  Proof. intros Hw Hi. unfold nvalid. rewrite (Hw i Hi). split; [exact Hi | reflexivity]. Qed.

  Lemma manage_ok h fr lb newn fr' lb' t :
    HI h -> FV h fr -> nvalid h newn -> n_explored newn = [] ->
    manage_node h fr lb newn = (false, fr', lb', t) ->
    (lb <= lb')%Q /\ FV h fr' /\
    (forall pi, scov h fr lb pi -> scov h fr' lb' pi) /\
    (forall pi, ends_with (n_tail newn) pi -> scov h fr' lb' pi) /\
    (t = false -> n_exp newn = true).
  Proof.
    intros [Hw [Ha He]] Hf Hv Hex. destruct Hv as [Hv1 Hv2]. unfold manage_node.
    destruct (n_exp newn) eqn:Eexp.
    - intro H. inversion H. subst fr' lb' t. split; [lra|]. split; [apply FV_insert; [exact Hf | split; assumption]|].
      split; [intros pi Hs; apply scov_insert; exact Hs|]. split; [|reflexivity].
      intros pi Hend. apply scov_insert_new. unfold safe. rewrite Hv2. split; [exact Hend|]. right.
      intros pre c _. rewrite Hex. intros [].
    - set (ba := match n_anc newn with Some a => get h a | None => dummy_node end).
      assert (Hins : forall l1, (lb <= l1)%Q ->
                (lb <= l1)%Q /\ FV h (insert_node fr newn) /\
                (forall pi, scov h fr lb pi -> scov h (insert_node fr newn) l1 pi) /\
                (forall pi, ends_with (n_tail newn) pi -> scov h (insert_node fr newn) l1 pi) /\
                (true = false -> false = true)).
      { intros l1 Hl. split; [exact Hl|]. split; [apply FV_insert; [exact Hf | split; assumption]|].
        split; [intros pi Hs; apply scov_insert; eapply scov_lb; eauto|]. split; [|discriminate].
        intros pi Hend. apply scov_insert_new. unfold safe. rewrite Hv2. split; [exact Hend|]. left. left. exact Eexp. }
      assert (Hrep : forall eb, n_est ba = Some eb -> ole (n_est ba) (n_est newn) = true ->
                (lb <= Qmaxb lb eb)%Q /\ FV h (replace_desc fr ba) /\
                (forall pi, scov h fr lb pi -> scov h (replace_desc fr ba) (Qmaxb lb eb) pi) /\
                (forall pi, ends_with (n_tail newn) pi -> scov h (replace_desc fr ba) (Qmaxb lb eb) pi) /\
                (true = false -> false = true)).
      { intros eb Eb Hole. unfold ba in *. destruct (n_anc newn) as [a|] eqn:Eanc; [|simpl in Eb; discriminate].
        assert (Hanc : n_anc (get h (n_id newn)) = Some a) by (rewrite Hv2; exact Eanc).
        destruct (Ha _ _ Hv1 Hanc) as [Halt Haend]. rewrite Hv2 in Haend.
        pose proof (nvalid_get h a Hw Halt) as Hvb.
        assert (Hfz : frozen h (Qmaxb lb eb) (get h a)).
        { right. left. rewrite Eb. simpl. apply Qle_bool_iff. apply Qmaxb_r. }
        split; [apply Qmaxb_l|]. split; [apply FV_replace; assumption|].
        split; [intros pi Hs; apply scov_replace; try assumption; eapply scov_lb; [apply Qmaxb_l | exact Hs]|].
        split; [|discriminate]. intros pi Hend. apply scov_replace_new; try assumption.
        eapply ends_with_trans; eauto. }
      destruct (n_est newn) as [en|] eqn:En; destruct (n_est ba) as [eb|] eqn:Eb.
      + destruct (ole (Some eb) (Some en)) eqn:Eo; intro H; inversion H; subst fr' lb' t.
        * apply (Hrep eb eq_refl eq_refl).
        * apply Hins. apply Qmaxb_l.
      + destruct (ole None (Some en)) eqn:Eo; intro H; inversion H; subst fr' lb' t.
        * simpl in Eo. discriminate.
        * apply Hins. apply Qmaxb_l.
      + destruct (ole (Some eb) None) eqn:Eo; intro H; inversion H; subst fr' lb' t.
        * apply (Hrep eb eq_refl eq_refl).
        * apply Hins. lra.
      + intro H. discriminate.
  Qed.


  (* ---------------------------------------------------------------- new nodes *)
  Lemma HI_cons n h : HI h -> n_id n = length h ->
    (forall a, n_anc n = Some a -> a < length h /\ ends_with (n_tail (get h a)) (n_tail n)) ->
    (n_exp n = true -> length (n_tail n) <> length cands) -> HI (n :: h).
  Proof.
    intros [Hw [Ha He]] Hid Hanc Hexp. split; [apply hwf_cons; assumption|]. split.
    - intros i a Hi. simpl in Hi. destruct (Nat.eq_dec i (length h)) as [Hq|Hq].
      + subst i. rewrite get_cons_new. intro H. destruct (Hanc a H) as [H1 H2]. simpl length. split; [lia|].
        rewrite get_cons_old by exact H1. exact H2.
      + assert (Hi' : i < length h) by lia. rewrite get_cons_old by exact Hi'. intro H.
        destruct (Ha i a Hi' H) as [H1 H2]. simpl length. split; [lia|]. rewrite get_cons_old by exact H1. exact H2.
    - intros i Hi. simpl in Hi. destruct (Nat.eq_dec i (length h)) as [Hq|Hq].
      + subst i. rewrite get_cons_new. exact Hexp.
      + assert (Hi' : i < length h) by lia. rewrite get_cons_old by exact Hi'. apply He. exact Hi'.
  Qed.

  Lemma new_node_exp id tl anc dv :
    n_exp (new_node dfun cands p tot nebs id tl anc dv) = true -> length tl <> length cands.
  Proof.
    unfold new_node. simpl. intro H. apply negb_true_iff in H. apply Nat.eqb_neq in H. exact H.
  Qed.

  Lemma anc_child_ok h x c a : HI h -> nvalid h x -> anc_for_child h x = Some a ->
    a < length h /\ ends_with (n_tail (get h a)) (c :: n_tail x).
  Proof.
    intros [Hw [Ha He]] [Hv1 Hv2]. unfold anc_for_child.
    assert (Hself : n_id x < length h /\ ends_with (n_tail (get h (n_id x))) (c :: n_tail x)).
    { split; [exact Hv1|]. rewrite Hv2. apply ends_with_cons. }
    destruct (n_anc x) as [a0|] eqn:Eanc.
    - destruct (ole (n_est (get h a0)) (n_est x)); intro H; inversion H; subst a; [|exact Hself].
      assert (Hanc : n_anc (get h (n_id x)) = Some a0) by (rewrite Hv2; exact Eanc).
      destruct (Ha _ _ Hv1 Hanc) as [H1 H2]. split; [exact H1|]. rewrite Hv2 in H2.
      eapply ends_with_trans; [exact H2 | apply ends_with_cons].
    - intro H. inversion H. subst a. exact Hself.
  Qed.

  Lemma nvalid_cons n h x : nvalid h x -> nvalid (n :: h) x.
  Proof. intros [H1 H2]. split; [simpl; lia|]. rewrite get_cons_old by exact H1. exact H2. Qed.

  (* state after pushing a fresh child of x *)
  Lemma push_child h x c dv :
    HI h -> nvalid h x ->
    let newn := new_node dfun cands p tot nebs (length h) (c :: n_tail x) (anc_for_child h x) dv in
    HI (newn :: h) /\ nvalid (newn :: h) newn /\ n_explored newn = [] /\ n_tail newn = c :: n_tail x.
  Proof.
    intros Hh Hv newn. split; [|split; [|split; reflexivity]].
    - apply HI_cons; [exact Hh | reflexivity | | apply new_node_exp].
      intros a Ha. apply (anc_child_ok h x c a Hh Hv Ha).
    - split; [simpl; lia|]. apply get_cons_new.
  Qed.

  (* ---------------------------------------------------------------- expand *)
  Lemma expand_inv cs : forall te h fr lb h' fr' lb',
    HI h -> FV h fr -> nvalid h te ->
    expand dfun cands p tot nebs cs te h fr lb = (false, h', fr', lb') ->
    HI h' /\ FV h' fr' /\ (lb <= lb')%Q /\ length h <= length h' /\
    (forall i, i < length h -> get h' i = get h i) /\
    (forall pi, scov h fr lb pi -> scov h' fr' lb' pi) /\
    (forall pi c, In c cs -> ~ In c (n_tail te) -> ~ In c (n_explored te) -> ends_with (c :: n_tail te) pi ->
                  scov h' fr' lb' pi).
  Proof.
    induction cs as [|c r IH]; intros te h fr lb h' fr' lb' Hh Hf Hv; cbn [expand].
    - intro H. inversion H. subst. split; [exact Hh|]. split; [exact Hf|]. split; [lra|]. split; [lia|].
      split; [intros; reflexivity|]. split; [intros pi Hs; exact Hs|]. intros pi c [].
    - destruct (negb (mem c (n_tail te)) && negb (mem c (n_explored te))) eqn:Econd.
      + destruct (push_child h te c false Hh Hv) as [Hh1 [Hv1 [Hex1 Htl1]]].
        set (newn := new_node dfun cands p tot nebs (length h) (c :: n_tail te) (anc_for_child h te) false) in *.
        destruct (manage_node (newn :: h) fr lb newn) as [[[b f1] l1] t1] eqn:Em.
        destruct b; [discriminate|]. intro Hexp.
        destruct (manage_ok _ _ _ _ _ _ _ Hh1 (FV_cons newn h fr Hf) Hv1 Hex1 Em) as [Hl1 [Hf1 [Hp1 [Hn1 _]]]].
        destruct (IH te (newn :: h) f1 l1 h' fr' lb' Hh1 Hf1 (nvalid_cons newn h te Hv) Hexp)
          as [Hh' [Hf' [Hl' [Hlen [Hget [Hp' Hn']]]]]].
        split; [exact Hh'|]. split; [exact Hf'|]. split; [lra|]. split; [simpl in Hlen; lia|].
        split; [|split].
        * intros i Hi. rewrite Hget by (simpl; lia). apply get_cons_old. exact Hi.
        * intros pi Hs. apply Hp'. apply Hp1. apply scov_cons; [apply Hh | exact Hf | exact Hs].
        * intros pi c' [Hc|Hc] Hnt Hne Hend.
          -- subst c'. apply Hp'. apply Hn1. rewrite Htl1. exact Hend.
          -- eapply Hn'; eauto.
      + intro Hexp. destruct (IH te h fr lb h' fr' lb' Hh Hf Hv Hexp) as [Hh' [Hf' [Hl' [Hlen [Hget [Hp' Hn']]]]]].
        split; [exact Hh'|]. split; [exact Hf'|]. split; [exact Hl'|]. split; [exact Hlen|]. split; [exact Hget|].
        split; [exact Hp'|].
        intros pi c' [Hc|Hc] Hnt Hne Hend; [|eapply Hn'; eauto].
        subst c'. exfalso. apply mem_false in Hnt. apply mem_false in Hne. rewrite Hnt, Hne in Econd. discriminate.
  Qed.


  (* ---------------------------------------------------------------- perform_dive *)
  Lemma push_node h tl anc dv :
    HI h -> (forall a, anc = Some a -> a < length h /\ ends_with (n_tail (get h a)) tl) ->
    let newn := new_node dfun cands p tot nebs (length h) tl anc dv in
    HI (newn :: h) /\ nvalid (newn :: h) newn /\ n_explored newn = [] /\ n_tail newn = tl.
  Proof.
    intros Hh Hanc newn. split; [|split; [|split; reflexivity]].
    - apply HI_cons; [exact Hh | reflexivity | exact Hanc | apply new_node_exp].
    - split; [simpl; lia|]. apply get_cons_new.
  Qed.

  Lemma scov_upd_explored h fr lb id c pi : HI h -> FV h fr -> id < length h ->
    scov h fr lb pi ->
    scov (upd h id (add_explored c)) fr lb pi \/ ends_with (c :: n_tail (get h id)) pi.
  Proof.
    intros [Hw [Ha _]] Hf Hid [x [H1 H2]].
    destruct (safe_upd_explored h lb id c (fe_id x) pi Hw Ha (proj1 (Hf x H1)) Hid H2) as [H|H].
    - left. exists x. split; assumption.
    - right. exact H.
  Qed.

  Lemma dive_inv fuel : forall h fr lb nid h' fr' dlb,
    HI h -> FV h fr -> nid < length h ->
    perform_dive dfun cands p tot hint nebs fuel h fr lb nid = Some (h', fr', Some dlb) ->
    exists next, In next cands /\ ~ In next (n_tail (get h nid)) /\
      HI h' /\ FV h' fr' /\ (lb <= dlb)%Q /\ length h <= length h' /\
      (forall i, i < length h -> i <> nid -> get h' i = get h i) /\
      get h' nid = add_explored next (get h nid) /\
      (forall pi, scov h fr lb pi -> scov h' fr' dlb pi) /\
      (forall pi, ends_with (next :: n_tail (get h nid)) pi -> scov h' fr' dlb pi).
  Proof.
    induction fuel as [|f IH]; intros h fr lb nid h' fr' dlb Hh Hf Hnid; cbn [perform_dive]; [discriminate|].
    destruct (filter (fun c => negb (mem c (n_tail (get h nid)))) cands) as [|r0 rest] eqn:Ef; [discriminate|].
    set (next := dive_choice hint r0 rest).
    assert (Hnext : In next cands /\ ~ In next (n_tail (get h nid))).
    { assert (Hin : In next (r0 :: rest)) by apply dive_choice_in. rewrite <- Ef in Hin. apply filter_In in Hin.
      destruct Hin as [H1 H2]. split; [exact H1|]. apply negb_true_iff in H2. apply mem_false in H2. exact H2. }
    set (h1 := upd h nid (add_explored next)).
    pose proof (keeps_add_explored next) as Hk.
    assert (Hh1 : HI h1) by (apply HI_upd; assumption).
    assert (Hlen1 : length h1 = length h) by apply upd_length.
    assert (Hw : hwf h) by apply Hh.
    assert (Hanc : forall a, anc_for_child h (get h nid) = Some a ->
                     a < length h1 /\ ends_with (n_tail (get h1 a)) (next :: n_tail (get h nid))).
    { intros a Ha. destruct (anc_child_ok h (get h nid) next a Hh (nvalid_get h nid Hw Hnid) Ha) as [H1 H2].
      rewrite Hlen1. split; [exact H1|]. unfold h1. rewrite (tail_upd h nid _ a Hw Hk H1). exact H2. }
    destruct (push_node h1 (next :: n_tail (get h nid)) (anc_for_child h (get h nid)) true Hh1 Hanc)
      as [Hh2 [Hv2 [Hex2 Htl2]]].
    set (newn := new_node dfun cands p tot nebs (length h1) (next :: n_tail (get h nid)) (anc_for_child h (get h nid)) true) in *.
    assert (Hf2 : FV (newn :: h1) fr) by (apply FV_cons; apply FV_upd; assumption).
    destruct (manage_node (newn :: h1) fr lb newn) as [[[b f1] l1] t1] eqn:Em.
    destruct b; [intro H; discriminate|].
    destruct (manage_ok _ _ _ _ _ _ _ Hh2 Hf2 Hv2 Hex2 Em) as [Hl1 [Hf1 [Hp1 [Hn1 Ht1]]]].
    (* facts about the state (newn :: h1, f1, l1) relative to (h, fr, lb) *)
    assert (Hget_other : forall i, i < length h -> i <> nid -> get (newn :: h1) i = get h i).
    { intros i Hi Hne. rewrite get_cons_old by lia. unfold h1. rewrite get_upd by assumption.
      apply Nat.eqb_neq in Hne. rewrite Hne. reflexivity. }
    assert (Hget_nid : get (newn :: h1) nid = add_explored next (get h nid)).
    { rewrite get_cons_old by lia. unfold h1. rewrite get_upd by assumption. rewrite Nat.eqb_refl. reflexivity. }
    assert (Hnew : forall pi, ends_with (next :: n_tail (get h nid)) pi -> scov (newn :: h1) f1 l1 pi).
    { intros pi He. apply Hn1. rewrite Htl2. exact He. }
    assert (Hpres : forall pi, scov h fr lb pi -> scov (newn :: h1) f1 l1 pi).
    { intros pi Hs. destruct (scov_upd_explored h fr lb nid next pi Hh Hf Hnid Hs) as [H|H].
      - apply Hp1. apply scov_cons; [apply Hh1 | apply FV_upd; assumption | exact H].
      - apply Hnew. exact H. }
    destruct t1.
    - intro H. inversion H. subst h' fr' dlb. exists next.
      split; [apply Hnext|]. split; [apply Hnext|]. split; [exact Hh2|]. split; [exact Hf1|]. split; [exact Hl1|].
      split; [simpl; lia|]. split; [exact Hget_other|]. split; [exact Hget_nid|]. split; [exact Hpres | exact Hnew].
    - intro Hrec.
      assert (Hnid2 : n_id newn < length (newn :: h1)) by apply Hv2.
      destruct (IH _ _ _ _ _ _ _ Hh2 Hf1 Hnid2 Hrec) as [next' [_ [_ [Hh' [Hf' [Hl' [Hlen' [Hgo' [_ [Hp' _]]]]]]]]]].
      assert (Hidn : n_id newn = length h1) by reflexivity.
      exists next.
      split; [apply Hnext|]. split; [apply Hnext|]. split; [exact Hh'|]. split; [exact Hf'|]. split; [lra|].
      split; [simpl in Hlen'; lia|]. split; [|split; [|split]].
      + intros i Hi Hne. rewrite Hgo' by (simpl; lia). apply Hget_other; assumption.
      + rewrite Hgo' by (simpl; lia). exact Hget_nid.
      + intros pi Hs. apply Hp'. apply Hpres. exact Hs.
      + intros pi He. apply Hp'. apply Hnew. exact He.
  Qed.


  (* ---------------------------------------------------------------- the loop *)
  Lemma alt_next tl pi : alt pi -> ends_with tl pi -> length tl <> length cands ->
    exists pre c, pi = pre ++ c :: tl /\ In c cands /\ ~ In c tl.
  Proof.
    intros [Hp _] [pre0 He] Hlen.
    assert (Hl : length pi = length cands) by (symmetry; apply Permutation_length; exact Hp).
    destruct (last_case pre0) as [Hnil|[pre [c Hc]]].
    - subst pre0. simpl in He. subst pi. contradiction.
    - subst pre0. rewrite <- app_assoc in He. simpl in He. exists pre, c. split; [exact He|].
      assert (Hndp : NoDup pi) by (eapply Permutation_NoDup; eauto).
      split.
      + eapply Permutation_in; [apply Permutation_sym; exact Hp|]. rewrite He. apply in_or_app. right. left. reflexivity.
      + rewrite He in Hndp. apply NoDup_remove_2 in Hndp. intro Hin. apply Hndp. apply in_or_app. right. exact Hin.
  Qed.

  Lemma anc_le_some h te lb an : anc_le h te lb = Some an ->
    exists a, n_anc te = Some a /\ an = get h a /\ ole (n_est an) (Some lb) = true.
  Proof.
    unfold anc_le. destruct (n_anc te) as [a|]; [|discriminate].
    destruct (ole (n_est (get h a)) (Some lb)) eqn:E; [|discriminate].
    intro H. inversion H. subst an. exists a. repeat split; auto.
  Qed.
  Lemma anc_le_none h te lb a : anc_le h te lb = None -> n_anc te = Some a -> ole (n_est (get h a)) (Some lb) = false.
  Proof.
    unfold anc_le. intros H Ha. rewrite Ha in H. destruct (ole (n_est (get h a)) (Some lb)); [discriminate | reflexivity].
  Qed.
  Lemma not_frozen h te lb : n_exp te = true -> anc_le h te lb = None -> ole (n_est te) (Some lb) = false ->
    ~ frozen h lb te.
  Proof.
    intros H1 H2 H3 [H|[H|[a [Ha Hb]]]]; [congruence | congruence |].
    rewrite (anc_le_none h te lb a H2 Ha) in Hb. discriminate.
  Qed.

  Lemma SC_head h x fr1 lb pi : SC h (x :: fr1) lb -> alt pi -> safe h lb (fe_id x) pi \/ scov h fr1 lb pi.
  Proof.
    intros Hsc Ha. destruct (Hsc pi Ha) as [y [[Hy|Hy] Hs]]; [subst y; left; exact Hs | right; exists y; split; assumption].
  Qed.
  Lemma FV_tail h x fr1 : FV h (x :: fr1) -> FV h fr1.
  Proof. intros H y Hy. apply H. right. exact Hy. Qed.

  (* an order whose safe entry is the (unfrozen, expandable) popped node continues through an unexplored child *)
  Lemma popped_child h lb i pi : HI h -> i < length h -> alt pi -> safe h lb i pi ->
    n_exp (get h i) = true -> ~ frozen h lb (get h i) ->
    exists pre c, pi = pre ++ c :: n_tail (get h i) /\ In c cands /\ ~ In c (n_tail (get h i)) /\
                  ~ In c (n_explored (get h i)).
  Proof.
    intros [_ [_ He]] Hi Ha [Hend Hs] Hexp Hnf. destruct Hs as [Hs|Hs]; [contradiction|].
    destruct (alt_next _ pi Ha Hend (He i Hi Hexp)) as [pre [c [H1 [H2 H3]]]].
    exists pre, c. repeat split; auto. eapply Hs. exact H1.
  Qed.

  Lemma search_inv fuel : forall h fr lb h' fr',
    HI h -> FV h fr -> SC h fr lb ->
    search dfun cands p tot hint nebs fuel h fr lb = Finished h' fr' ->
    frontier_covers cands winner h' fr'.
  Proof.
    induction fuel as [|f IH]; intros h fr lb h' fr' Hh Hf Hsc; cbn [search]; [discriminate|].
    destruct fr as [|x fr1]; [discriminate|].
    assert (Hw : hwf h) by apply Hh. assert (Hao : aok h) by apply Hh.
    assert (Hx : fe_id x < length h) by (apply (Hf x); left; reflexivity).
    assert (Hf1 : FV h fr1) by (eapply FV_tail; eauto).
    set (te := get h (fe_id x)).
    assert (Hidte : n_id te = fe_id x) by (apply Hw; exact Hx).
    assert (Hvte : nvalid h te) by (apply nvalid_get; assumption).
    destruct (negb (n_exp te)) eqn:Eexp.
    { intro H. inversion H. subst h' fr'. intros pi Hp He. destruct (Hsc pi (conj Hp He)) as [y [Hy [Hs _]]].
      exists y. split; assumption. }
    apply negb_false_iff in Eexp.
    destruct (anc_le h te lb) as [an|] eqn:Eanc.
    { (* replaced by its best ancestor *)
      destruct (anc_le_some _ _ _ _ Eanc) as [a [Ha1 [Ha2 Ha3]]]. subst an.
      destruct (Hao _ _ Hx Ha1) as [Halt Haend]. fold te in Haend.
      pose proof (nvalid_get h a Hw Halt) as Hva.
      assert (Hfz : frozen h lb (get h a)) by (right; left; exact Ha3).
      apply IH; [exact Hh | apply FV_replace; assumption|].
      intros pi Hal. destruct (SC_head _ _ _ _ _ Hsc Hal) as [[Hend _]|Hs].
      - apply scov_replace_new; try assumption. eapply ends_with_trans; eauto.
      - apply scov_replace; assumption. }
    destruct (ole (n_est te) (Some lb)) eqn:Eest.
    { (* made a leaf *)
      rewrite Hidte.
      pose proof keeps_set_exp_false as Hk.
      assert (Hh' : HI (upd h (fe_id x) set_exp_false)) by (apply HI_upd; assumption).
      assert (Hx' : fe_id x < length (upd h (fe_id x) set_exp_false)) by (rewrite upd_length; exact Hx).
      assert (Hv' : nvalid (upd h (fe_id x) set_exp_false) (get (upd h (fe_id x) set_exp_false) (fe_id x)))
        by (apply nvalid_get; [apply Hh' | exact Hx']).
      apply IH; [exact Hh' | apply FV_insert; [apply FV_upd; assumption | exact Hv']|].
      intros pi Hal. destruct (SC_head _ _ _ _ _ Hsc Hal) as [Hs|Hs].
      - apply scov_insert_new. rewrite (proj1 Hh' _ Hx').
        apply safe_upd_same; try assumption. intro n. reflexivity.
      - apply scov_insert. apply scov_upd_same; try assumption. intro n. reflexivity. }
    pose proof (not_frozen h te lb Eexp Eanc Eest) as Hnf.
    destruct (n_dive te) eqn:Edive.
    { (* expansion of a node created by a dive *)
      destruct (expand dfun cands p tot nebs cands te h fr1 lb) as [[[b h2] fr2] lb2] eqn:Ee.
      destruct b; [discriminate|].
      destruct (expand_inv _ _ _ _ _ _ _ _ Hh Hf1 Hvte Ee) as [Hh2 [Hf2 [Hl2 [_ [_ [Hp2 Hn2]]]]]].
      apply IH; [exact Hh2 | exact Hf2|].
      intros pi Hal. destruct (SC_head _ _ _ _ _ Hsc Hal) as [Hs|Hs]; [|apply Hp2; exact Hs].
      destruct (popped_child h lb (fe_id x) pi Hh Hx Hal Hs Eexp Hnf) as [pre [c [H1 [H2 [H3 H4]]]]].
      eapply Hn2; eauto. exists pre. exact H1. }
    (* dive, then expansion *)
    rewrite Hidte.
    destruct (perform_dive dfun cands p tot hint nebs (S (ncands cands)) h fr1 lb (fe_id x)) as [[[h1 fr2] r]|] eqn:Ed;
      [|discriminate].
    destruct r as [dlb|]; [|discriminate].
    destruct (dive_inv _ _ _ _ _ _ _ _ Hh Hf1 Hx Ed) as [next [Hn1 [Hn2 [Hh1 [Hf2 [Hl1 [Hlen1 [_ [Hte1 [Hp1 Hnew1]]]]]]]]]].
    fold te in Hte1, Hn2.
    set (lb1 := Qmaxb lb dlb).
    assert (Hdl : (dlb <= lb1)%Q) by apply Qmaxb_r.
    assert (Hx1 : fe_id x < length h1) by lia.
    assert (Hw1 : hwf h1) by apply Hh1.
    set (te1 := get h1 (fe_id x)).
    assert (Hid1 : n_id te1 = fe_id x) by (apply Hw1; exact Hx1).
    assert (Htl1 : n_tail te1 = n_tail te) by (unfold te1; rewrite Hte1; reflexivity).
    assert (Hexpl1 : n_explored te1 = n_explored te ++ [next]) by (unfold te1; rewrite Hte1; reflexivity).
    assert (Hexp1 : n_exp te1 = true) by (unfold te1; rewrite Hte1; exact Eexp).
    (* status of every alternative order after the dive *)
    assert (Hstat : forall pi, alt pi ->
              scov h1 fr2 lb1 pi \/
              (ends_with (n_tail te) pi /\
               exists pre c, pi = pre ++ c :: n_tail te /\ In c cands /\ ~ In c (n_tail te) /\ ~ In c (n_explored te1))).
    { intros pi Hal. destruct (SC_head _ _ _ _ _ Hsc Hal) as [Hs|Hs].
      - destruct (popped_child h lb (fe_id x) pi Hh Hx Hal Hs Eexp Hnf) as [pre [c [H1 [H2 [H3 H4]]]]]. fold te in H1, H3, H4.
        destruct (Nat.eq_dec c next) as [Hc|Hc].
        + left. eapply scov_lb; [exact Hdl|]. apply Hnew1. subst c. exists pre. exact H1.
        + right. split; [apply Hs|]. exists pre, c. repeat split; auto. rewrite Hexpl1. intro Hin.
          apply in_app_or in Hin. destruct Hin as [Hin|[Hin|[]]]; [contradiction | apply Hc; symmetry; exact Hin].
      - left. eapply scov_lb; [exact Hdl|]. apply Hp1. exact Hs. }
    fold te1. rewrite Hid1.
    destruct (anc_le h1 te1 lb1) as [an|] eqn:Eanc1.
    { destruct (anc_le_some _ _ _ _ Eanc1) as [a [Ha1 [Ha2 Ha3]]]. subst an.
      destruct (proj1 (proj2 Hh1) _ _ Hx1 Ha1) as [Halt Haend]. fold te1 in Haend. rewrite Htl1 in Haend.
      pose proof (nvalid_get h1 a Hw1 Halt) as Hva.
      assert (Hfz : frozen h1 lb1 (get h1 a)) by (right; left; exact Ha3).
      apply IH; [exact Hh1 | apply FV_replace; assumption|].
      intros pi Hal. destruct (Hstat pi Hal) as [Hs|[Hend _]].
      - apply scov_replace; assumption.
      - apply scov_replace_new; try assumption. eapply ends_with_trans; eauto. }
    destruct (ole (n_est te1) (Some lb1)) eqn:Eest1.
    { pose proof keeps_set_exp_false as Hk.
      assert (Hh' : HI (upd h1 (fe_id x) set_exp_false)) by (apply HI_upd; assumption).
      assert (Hx' : fe_id x < length (upd h1 (fe_id x) set_exp_false)) by (rewrite upd_length; exact Hx1).
      assert (Hv' : nvalid (upd h1 (fe_id x) set_exp_false) (get (upd h1 (fe_id x) set_exp_false) (fe_id x)))
        by (apply nvalid_get; [apply Hh' | exact Hx']).
      apply IH; [exact Hh' | apply FV_insert; [apply FV_upd; assumption | exact Hv']|].
      intros pi Hal. destruct (Hstat pi Hal) as [Hs|[Hend _]].
      - apply scov_insert. apply scov_upd_same; try assumption; [apply Hh1 | intro n; reflexivity].
      - apply scov_insert_new. rewrite (proj1 Hh' _ Hx'). unfold safe.
        rewrite (tail_upd h1 _ _ _ Hw1 Hk Hx1). fold te1. rewrite Htl1. split; [exact Hend|]. left. left.
        rewrite get_upd by assumption. rewrite Nat.eqb_refl. reflexivity. }
    destruct (expand dfun cands p tot nebs cands te1 h1 fr2 lb1) as [[[b h2] fr3] lb2] eqn:Ee.
    destruct b; [discriminate|].
    assert (Hvte1 : nvalid h1 te1) by (apply nvalid_get; assumption).
    destruct (expand_inv _ _ _ _ _ _ _ _ Hh1 Hf2 Hvte1 Ee) as [Hh2 [Hf3 [Hl2 [_ [_ [Hp2 Hnw2]]]]]].
    apply IH; [exact Hh2 | exact Hf3|].
    intros pi Hal. destruct (Hstat pi Hal) as [Hs|[Hend [pre [c [H1 [H2 [H3 H4]]]]]]]; [apply Hp2; exact Hs|].
    eapply Hnw2; eauto; rewrite Htl1; [exact H3 | exists pre; exact H1].
  Qed.


  (* ---------------------------------------------------------------- the initial frontier *)
  Definition SI (st : heap * list fentry) : Prop := HI (fst st) /\ FV (fst st) (snd st).
  Definition has (st : heap * list fentry) (d c : cand) : Prop :=
    exists x, In x (snd st) /\ n_tail (get (fst st) (fe_id x)) = [d; c] /\ n_explored (get (fst st) (fe_id x)) = [].

  Definition inner (c : cand) (st : heap * list fentry) (d : cand) : heap * list fentry :=
    if Nat.eqb c d then st
    else let newn := new_node dfun cands p tot nebs (length (fst st)) [d; c] None false in
         (newn :: fst st, insert_node (snd st) newn).
  Definition outer (st : heap * list fentry) (c : cand) : heap * list fentry :=
    if Nat.eqb c winner then st else fold_left (inner c) cands st.
  Lemma initial_eq : initial dfun cands p tot nebs winner = fold_left outer cands ([], []).
  Proof. reflexivity. Qed.

  Lemma inner_step c st d : SI st ->
    SI (inner c st d) /\ (forall d' c', has st d' c' -> has (inner c st d) d' c') /\ (c <> d -> has (inner c st d) d c).
  Proof.
    intros [Hh Hf]. unfold inner. destruct (Nat.eqb c d) eqn:E.
    - split; [split; assumption|]. split; [auto|]. intro Hne. apply Nat.eqb_neq in Hne. congruence.
    - assert (Hanc : forall a, (None : option nat) = Some a ->
                       a < length (fst st) /\ ends_with (n_tail (get (fst st) a)) [d; c]) by (intros a Ha; discriminate).
      destruct (push_node (fst st) [d; c] None false Hh Hanc) as [Hh1 [Hv1 [Hex1 Htl1]]].
      set (newn := new_node dfun cands p tot nebs (length (fst st)) [d; c] None false) in *.
      cbv zeta. split; [split; simpl; [exact Hh1 | apply FV_insert; [apply FV_cons; exact Hf | exact Hv1]]|]. split.
      + intros d' c' [x [H1 [H2 H3]]]. exists x. simpl. split; [apply insert_node_in; right; exact H1|].
        rewrite get_cons_old by (apply (Hf x H1)). split; assumption.
      + intros _. exists (fe_of newn). simpl. split; [apply insert_node_in; left; reflexivity|].
        destruct Hv1 as [_ Hv1]. change (fe_id (fe_of newn)) with (n_id newn). rewrite Hv1. split; assumption.
  Qed.

  Lemma inner_fold c ds : forall st, SI st ->
    SI (fold_left (inner c) ds st) /\
    (forall d' c', has st d' c' -> has (fold_left (inner c) ds st) d' c') /\
    (forall d, In d ds -> c <> d -> has (fold_left (inner c) ds st) d c).
  Proof.
    induction ds as [|d r IH]; intros st Hs; simpl.
    - split; [exact Hs|]. split; [auto | intros d []].
    - destruct (inner_step c st d Hs) as [Hs1 [Hm1 Hn1]]. destruct (IH _ Hs1) as [Hs2 [Hm2 Hn2]].
      split; [exact Hs2|]. split; [intros d' c' Hh; apply Hm2, Hm1; exact Hh|].
      intros d0 [Hd|Hd] Hne; [subst d0; apply Hm2, Hn1; exact Hne | apply Hn2; assumption].
  Qed.

  Lemma outer_fold cs : forall st, SI st ->
    SI (fold_left outer cs st) /\
    (forall d' c', has st d' c' -> has (fold_left outer cs st) d' c') /\
    (forall c d, In c cs -> c <> winner -> In d cands -> c <> d -> has (fold_left outer cs st) d c).
  Proof.
    induction cs as [|c r IH]; intros st Hs; simpl.
    - split; [exact Hs|]. split; [auto | intros c d []].
    - assert (Hstep : SI (outer st c) /\ (forall d' c', has st d' c' -> has (outer st c) d' c') /\
                      (c <> winner -> forall d, In d cands -> c <> d -> has (outer st c) d c)).
      { unfold outer. destruct (Nat.eqb c winner) eqn:E.
        - split; [exact Hs|]. split; [auto|]. intro Hne. apply Nat.eqb_neq in Hne. congruence.
        - destruct (inner_fold c cands st Hs) as [H1 [H2 H3]]. split; [exact H1|]. split; [exact H2|]. intros _. exact H3. }
      destruct Hstep as [Hs1 [Hm1 Hn1]]. destruct (IH _ Hs1) as [Hs2 [Hm2 Hn2]].
      split; [exact Hs2|]. split; [intros d' c' Hh; apply Hm2, Hm1; exact Hh|].
      intros c0 d [Hc|Hc] Hw Hd Hne; [subst c0; apply Hm2, Hn1; assumption | apply Hn2; assumption].
  Qed.

  Lemma SI_empty : SI ([], []).
  Proof.
    split; [|intros x []]. split; [intros i Hi; simpl in Hi; lia|]. split; intros i; intros; simpl in *; lia.
  Qed.

  Lemma initial_inv lb : 2 <= length cands ->
    let st := initial dfun cands p tot nebs winner in
    HI (fst st) /\ FV (fst st) (snd st) /\ SC (fst st) (snd st) lb.
  Proof.
    intros Hlen st. unfold st. rewrite initial_eq.
    destruct (outer_fold cands ([], []) SI_empty) as [[Hh Hf] [_ Hn]].
    split; [exact Hh|]. split; [exact Hf|].
    intros pi [Hp He].
    assert (Hl : length pi = length cands) by (symmetry; apply Permutation_length; exact Hp).
    assert (Hndp : NoDup pi) by (eapply Permutation_NoDup; eauto).
    destruct (last_case pi) as [Hnil|[p1 [c Hc]]]; [subst pi; simpl in Hl; lia|]. subst pi.
    rewrite ends_in_other_snoc in He. apply negb_true_iff in He. apply Nat.eqb_neq in He.
    destruct (last_case p1) as [Hnil|[p2 [d Hd]]]; [subst p1; simpl in Hl; lia|]. subst p1.
    assert (Hcin : In c cands).
    { eapply Permutation_in; [apply Permutation_sym; exact Hp|]. apply in_or_app. right. left. reflexivity. }
    assert (Hdin : In d cands).
    { eapply Permutation_in; [apply Permutation_sym; exact Hp|]. apply in_or_app. left. apply in_or_app. right. left. reflexivity. }
    assert (Hcd : c <> d).
    { intro Heq. subst d. rewrite <- app_assoc in Hndp. simpl in Hndp. apply NoDup_remove_2 in Hndp.
      apply Hndp. apply in_or_app. right. left. reflexivity. }
    destruct (Hn c d Hcin He Hdin Hcd) as [x [H1 [H2 H3]]].
    exists x. split; [exact H1|]. unfold safe. rewrite H2, H3. split.
    - exists p2. rewrite <- app_assoc. reflexivity.
    - right. intros pre c0 _ [].
  Qed.

  Lemma initial_small : length cands < 2 -> snd (initial dfun cands p tot nebs winner) = [].
  Proof.
    intro Hlen. destruct cands as [|c [|d r]]; [reflexivity | | simpl in Hlen; lia].
    unfold initial. simpl. destruct (Nat.eqb c winner); [reflexivity|]. rewrite Nat.eqb_refl. reflexivity.
  Qed.

  Lemma search_nil fuel h lb : search dfun cands p tot hint nebs fuel h [] lb = OutOfFuel.
  Proof. destruct fuel; reflexivity. Qed.

  (* THE INVARIANT: whenever the loop finishes, every alternative order has a suffix among the frontier tails *)
  Theorem search_frontier_covers fuel h fr :
    search dfun cands p tot hint nebs fuel
           (fst (initial dfun cands p tot nebs winner)) (snd (initial dfun cands p tot nebs winner)) (-10 # 1)%Q
    = Finished h fr -> frontier_covers cands winner h fr.
  Proof.
    destruct (le_lt_dec 2 (length cands)) as [Hl|Hl].
    - destruct (initial_inv (-10 # 1)%Q Hl) as [Hh [Hf Hs]]. apply search_inv; assumption.
    - rewrite (initial_small Hl). rewrite search_nil. discriminate.
  Qed.

End SearchInv.


(* ---- FULL STATEMENT: whenever the model of the search returns a non-empty list, the verified checker accepts it:
   every returned assertion is well formed and true of the profile with exactly its reported tallies (winner tally
   strictly larger), and the returned assertions exclude every complete elimination order ending in a candidate
   other than the reported winner.  For every fuel (exhaustion is `None`), difficulty function, candidate list
   without repetition, profile, total, reported winner and order hint. *)
Theorem raire_model_output_checked :
  forall fuel dfun cands p tot winner hint out,
    NoDup cands ->
    raire fuel dfun cands p tot winner hint = Some out -> out <> [] ->
    check_output cands p winner (map fst out) = true.
Proof.
  intros fuel dfun cands p tot winner hint out Hnd Hr Hne.
  apply (raire_model_output_checked_partial fuel dfun cands p tot winner hint out Hnd); [|exact Hr | exact Hne].
  intros h fr Hs. eapply search_frontier_covers; eauto.
Qed.
Print Assumptions raire_model_output_checked.

(* the same, spelled out semantically (C04's first sentence, about the model of the search) *)
Theorem raire_model_sound :
  forall fuel dfun cands p tot winner hint out,
    NoDup cands ->
    raire fuel dfun cands p tot winner hint = Some out -> out <> [] ->
    (forall a tw tl, In (a, tw, tl) (map fst out) ->
        holds cands p a = true /\ tally_w p a = tw /\ tally_l p a = tl /\ tl < tw)
    /\ sufficient cands winner (map rep_assertion (map fst out))
    /\ (forall pi, complete_order cands pi -> valid_order p pi -> ends_in_other winner pi = false).
Proof.
  intros fuel dfun cands p tot winner hint out Hnd Hr Hne.
  apply checked_output_sound_full; [exact Hnd|]. eapply raire_model_output_checked; eauto.
Qed.
Print Assumptions raire_model_sound.

(* one half of the emptiness clause: a non-empty result is only returned when an audit is possible; hence when no
   set of true assertions is sufficient — in particular when some valid count of the CVRs elects another candidate
   (RaireCheck_proofs.other_winner_not_possible) — the model returns [] (or runs out of fuel) *)
Theorem raire_model_nonempty_possible :
  forall fuel dfun cands p tot winner hint out,
    NoDup cands ->
    raire fuel dfun cands p tot winner hint = Some out -> out <> [] -> possible cands p winner = true.
Proof.
  intros fuel dfun cands p tot winner hint out Hnd Hr Hne.
  destruct (raire_model_sound fuel dfun cands p tot winner hint out Hnd Hr Hne) as [H1 [H2 _]].
  apply possible_dec_correct; [exact Hnd|]. exists (map rep_assertion (map fst out)). split; [|exact H2].
  intros a Ha. apply in_map_iff in Ha. destruct Ha as [[[a' tw] tl] [He Hin]]. unfold rep_assertion in He. simpl in He.
  subst a'. apply (H1 a tw tl Hin).
Qed.
Print Assumptions raire_model_nonempty_possible.

Corollary raire_model_empty_when_impossible :
  forall fuel dfun cands p tot winner hint out,
    NoDup cands -> possible cands p winner = false ->
    raire fuel dfun cands p tot winner hint = Some out -> out = [].
Proof.
  intros fuel dfun cands p tot winner hint out Hnd Hp Hr. destruct out as [|x r]; [reflexivity|].
  rewrite (raire_model_nonempty_possible fuel dfun cands p tot winner hint (x :: r) Hnd Hr) in Hp; discriminate.
Qed.

(* ================================================================== reported difficulties, and the optimum *)
(* a generic "every node of the heap satisfies NP" invariant of the search *)
Section NodePred.
  Variable dfun : nat -> nat -> nat -> Q.
  Variable cands : list cand.
  Variable p : profile.
  Variable tot : nat.
  Variable hint : list cand.
  Variable nebs : list (cand * cand * option asr).
  Variable NP : node -> Prop.
  Hypothesis NP_new : forall id tail anc dv, NP (new_node dfun cands p tot nebs id tail anc dv).
  Hypothesis NP_exp : forall n, NP n -> NP (set_exp_false n).
  Hypothesis NP_add : forall c n, NP n -> NP (add_explored c n).

  Lemma np_upd h id f : Forall NP h -> (forall n, NP n -> NP (f n)) -> Forall NP (upd h id f).
  Proof.
    intros H Hf. unfold upd. rewrite Forall_forall in *. intros n Hn.
    apply in_map_iff in Hn. destruct Hn as [m [He Hm]]. subst n.
    destruct (Nat.eqb (n_id m) id); [apply Hf|]; apply H; exact Hm.
  Qed.
  Lemma np_expand cs : forall te h fr lb anp h' fr' lb',
    Forall NP h -> expand dfun cands p tot nebs cs te h fr lb = (anp, h', fr', lb') -> Forall NP h'.
  Proof.
    induction cs as [|c r IH]; intros te h fr lb anp h' fr' lb' Hh; cbn [expand].
    - intro H. inversion H. subst. exact Hh.
    - destruct (negb (mem c (n_tail te)) && negb (mem c (n_explored te))); [|apply IH; exact Hh].
      set (newn := new_node dfun cands p tot nebs (length h) (c :: n_tail te) (anc_for_child h te) false).
      assert (Hh1 : Forall NP (newn :: h)) by (constructor; [apply NP_new | exact Hh]).
      destruct (manage_node (newn :: h) fr lb newn) as [[[a f'] l'] t']. destruct a.
      + intro H. inversion H. subst. exact Hh1.
      + apply IH. exact Hh1.
  Qed.
  Lemma np_dive fuel : forall h fr lb nid h' fr' r,
    Forall NP h -> perform_dive dfun cands p tot hint nebs fuel h fr lb nid = Some (h', fr', r) -> Forall NP h'.
  Proof.
    induction fuel as [|f IH]; intros h fr lb nid h' fr' r Hh; cbn [perform_dive]; [discriminate|].
    destruct (filter (fun c => negb (mem c (n_tail (get h nid)))) cands) as [|r0 rest]; [discriminate|].
    set (next := dive_choice hint r0 rest).
    set (h1 := upd h nid (add_explored next)).
    set (newn := new_node dfun cands p tot nebs (length h1) (next :: n_tail (get h nid)) (anc_for_child h (get h nid)) true).
    assert (Hh2 : Forall NP (newn :: h1)).
    { constructor; [apply NP_new|]. apply np_upd; [exact Hh | intros n Hn; apply NP_add; exact Hn]. }
    destruct (manage_node (newn :: h1) fr lb newn) as [[[a f'] l'] t']. destruct a.
    - intro H. inversion H. subst. exact Hh2.
    - destruct t'; [intro H; inversion H; subst; exact Hh2 | apply IH; exact Hh2].
  Qed.
  Lemma np_search fuel : forall h fr lb h' fr',
    Forall NP h -> search dfun cands p tot hint nebs fuel h fr lb = Finished h' fr' -> Forall NP h'.
  Proof.
    induction fuel as [|f IH]; intros h fr lb h' fr' Hh; cbn [search]; [discriminate|].
    destruct fr as [|x fr1]; [discriminate|].
    set (te := get h (fe_id x)).
    destruct (negb (n_exp te)); [intro H; inversion H; subst; exact Hh|].
    destruct (anc_le h te lb) as [an|]; [apply IH; exact Hh|].
    destruct (ole (n_est te) (Some lb)).
    { apply IH. apply np_upd; [exact Hh | exact NP_exp]. }
    destruct (n_dive te).
    { destruct (expand dfun cands p tot nebs cands te h fr1 lb) as [[[a h2] fr2] lb2] eqn:Ee.
      pose proof (np_expand _ _ _ _ _ _ _ _ _ Hh Ee) as Hh2. destruct a; [discriminate|]. apply IH. exact Hh2. }
    destruct (perform_dive dfun cands p tot hint nebs (S (ncands cands)) h fr1 lb (n_id te)) as [[[h1 fr2] r]|] eqn:Ed;
      [|discriminate].
    pose proof (np_dive _ _ _ _ _ _ _ _ Hh Ed) as Hh1.
    destruct r as [dlb|]; [|discriminate].
    set (te1 := get h1 (n_id te)).
    destruct (anc_le h1 te1 (Qmaxb lb dlb)) as [an|]; [apply IH; exact Hh1|].
    destruct (ole (n_est te1) (Some (Qmaxb lb dlb))).
    { apply IH. apply np_upd; [exact Hh1 | exact NP_exp]. }
    destruct (expand dfun cands p tot nebs cands te1 h1 fr2 (Qmaxb lb dlb)) as [[[a h2] fr3] lb2] eqn:Ee.
    pose proof (np_expand _ _ _ _ _ _ _ _ _ Hh1 Ee) as Hh2. destruct a; [discriminate|]. apply IH. exact Hh2.
  Qed.
  Lemma np_initial winner : Forall NP (fst (initial dfun cands p tot nebs winner)).
  Proof.
    unfold initial.
    set (P := fun st : heap * list fentry => Forall NP (fst st)).
    change (P (fold_left (fun st c =>
                 if Nat.eqb c winner then st
                 else fold_left (fun st d =>
                                   if Nat.eqb c d then st
                                   else let newn := new_node dfun cands p tot nebs (length (fst st)) [d; c] None false in
                                        (newn :: fst st, insert_node (snd st) newn))
                                cands st) cands ([], []))).
    apply fold_left_inv; [constructor|].
    intros st c Hst Hc. destruct (Nat.eqb c winner); [exact Hst|].
    apply fold_left_inv; [exact Hst|].
    intros st' d Hst' Hd. destruct (Nat.eqb c d); [exact Hst'|]. unfold P. simpl. constructor; [apply NP_new | exact Hst'].
  Qed.
End NodePred.

(* the final passes keep any property of assertions that does not mention rules_out *)
Section FinalGen.
  Variable okp : asr -> Prop.
  Hypothesis okp_ro : forall a ro, okp a -> okp (add_ro a ro).

  Lemma g_merge acc b acc' : Forall okp acc -> merge_same acc b = Some acc' -> Forall okp acc'.
  Proof.
    revert acc'. induction acc as [|a r IH]; simpl; intros acc' Hf; [discriminate|].
    inversion Hf as [|? ? Ha Hr]. subst. destruct (same_as (a_as b) (a_as a)).
    - intro H. inversion H. subst. constructor; [apply okp_ro; exact Ha | exact Hr].
    - destruct (merge_same r b) as [r'|] eqn:E; simpl; [|discriminate]. intro H. inversion H. subst.
      constructor; [exact Ha | apply IH; auto].
  Qed.
  Lemma g_dedup h fr : forall acc l,
    Forall (fun n => forall a, n_best n = Some a -> okp a) h -> Forall okp acc -> dedup h fr acc = Some l -> Forall okp l.
  Proof.
    induction fr as [|x r IH]; simpl; intros acc l Hh Hacc.
    - intro H. inversion H. subst. exact Hacc.
    - destruct (n_best (get h (fe_id x))) as [b|] eqn:Eb; [|discriminate].
      assert (Hb : okp b).
      { unfold get in Eb. destruct (nth_in_or_default (length h - 1 - fe_id x) h dummy_node) as [Hin|He].
        - rewrite Forall_forall in Hh. eapply Hh; eauto.
        - rewrite He in Eb. discriminate. }
      destruct (merge_same acc b) as [acc'|] eqn:E.
      + apply IH; [exact Hh | eapply g_merge; eauto].
      + apply IH; [exact Hh|]. apply Forall_app. split; [exact Hacc | constructor; [exact Hb | constructor]].
  Qed.
  Lemma g_sorted l : Forall okp l -> Forall okp (sorted_asr l).
  Proof.
    intro Hl. rewrite Forall_forall in *. intros a Ha. apply Hl. apply sorted_asr_in. exact Ha.
  Qed.
  Lemma g_absorb final x f' : Forall okp final -> absorb final x = Some f' -> Forall okp f'.
  Proof.
    revert f'. induction final as [|f r IH]; simpl; intros f' Hf; [discriminate|].
    inversion Hf as [|? ? Ha Hr]. subst. destruct (subsumes f x).
    - intro H. inversion H. subst. constructor; [apply okp_ro; exact Ha | exact Hr].
    - destruct (absorb r x) as [r'|] eqn:E; simpl; [|discriminate]. intro H. inversion H. subst.
      constructor; [exact Ha | apply IH; auto].
  Qed.
  Lemma g_prune l : Forall okp l -> Forall okp (prune_subsumed l).
  Proof.
    intro Hl. destruct l as [|a r]; simpl; [constructor|]. inversion Hl as [|? ? Ha Hr]. subst.
    apply (fold_left_inv (Forall okp)); [constructor; [exact Ha | constructor]|].
    intros final x Hf Hx. destruct (absorb final x) as [f'|] eqn:E.
    - eapply g_absorb; eauto.
    - apply Forall_app. split; [exact Hf|]. constructor; [|constructor]. rewrite Forall_forall in Hr. apply Hr. exact Hx.
  Qed.
End FinalGen.

(* every difficulty in the model's output is the difficulty function applied to the reported tallies *)
Definition dk (dfun : nat -> nat -> nat -> Q) (tot : nat) (a : asr) : Prop := a_d a = dfun (a_tw a) (a_tl a) tot.

Lemma neb_table_dk dfun cands p tot c d a : lookup (neb_table dfun cands p tot) c d = Some a -> dk dfun tot a.
Proof.
  intro H. apply lookup_in in H. unfold neb_table in H. apply in_flat_map in H.
  destruct H as [c' [_ H]]. apply in_map_iff in H. destruct H as [d' [He _]]. inversion He. subst c' d'.
  destruct (Nat.eqb c d); [discriminate|]. unfold mk_neb in H2.
  destruct (Nat.ltb (count (neb_vote_l c d) p) (count (neb_vote_w c) p)); [|discriminate].
  inversion H2. reflexivity.
Qed.

Lemma find_best_audit_dk dfun cands p tot tail a :
  find_best_audit dfun cands p tot (neb_table dfun cands p tot) tail = Some a -> dk dfun tot a.
Proof.
  destruct tail as [|first later]; [discriminate|].
  apply (find_best_audit_inv dfun cands p tot _ (dk dfun tot)).
  - intros lc b _ Hb. eapply neb_table_dk; eauto.
  - intros c ct b _ _ Hb. eapply neb_table_dk; eauto.
  - intros lc _ _. reflexivity.
Qed.

Theorem raire_model_difficulties :
  forall fuel dfun cands p tot winner hint out,
    raire fuel dfun cands p tot winner hint = Some out ->
    forall a tw tl d, In (a, tw, tl, d) out -> d = dfun tw tl tot.
Proof.
  intros fuel dfun cands p tot winner hint out. unfold raire.
  set (nebs := neb_table dfun cands p tot).
  set (NP := fun n : node => forall a, n_best n = Some a -> dk dfun tot a).
  assert (NP_new : forall id tail anc dv, NP (new_node dfun cands p tot nebs id tail anc dv)).
  { intros id tail anc dv a Ha. unfold new_node in Ha. simpl in Ha. eapply find_best_audit_dk; eauto. }
  assert (NP_exp : forall n, NP n -> NP (set_exp_false n)) by (intros n Hn; exact Hn).
  assert (NP_add : forall c n, NP n -> NP (add_explored c n)) by (intros c n Hn; exact Hn).
  pose proof (np_initial dfun cands p tot nebs NP NP_new winner) as Hi.
  destruct (search dfun cands p tot hint nebs fuel (fst (initial dfun cands p tot nebs winner))
                   (snd (initial dfun cands p tot nebs winner)) (-10 # 1)%Q) as [| |h fr] eqn:Es.
  - discriminate.
  - intro H. inversion H. intros a tw tl d [].
  - pose proof (np_search dfun cands p tot hint nebs NP NP_new NP_exp NP_add fuel _ _ _ _ _ Hi Es) as Hh.
    destruct (dedup h fr []) as [l|] eqn:Ed; [|intro H; inversion H; intros a tw tl d []].
    intro H. inversion H. subst out. clear H.
    assert (Hro : forall a ro, dk dfun tot a -> dk dfun tot (add_ro a ro)) by (intros a ro Ha; exact Ha).
    pose proof (g_dedup (dk dfun tot) Hro h fr [] l Hh (Forall_nil _) Ed) as Hl.
    apply (g_sorted (dk dfun tot)) in Hl. apply (g_prune (dk dfun tot) Hro) in Hl.
    intros a tw tl d Hin. unfold out_of in Hin. apply in_map_iff in Hin. destruct Hin as [b [He Hb]].
    inversion He. subst. rewrite Forall_forall in Hl. apply (Hl b Hb).
Qed.
Print Assumptions raire_model_difficulties.

(* the model's result is a sufficient set of true assertions, so (C15_opt_is_minimax) an audit is possible and the
   largest difficulty it reports is at least the verified optimum *)
Theorem raire_model_max_ge_opt :
  forall fuel dfun cands p tot winner hint out,
    NoDup cands ->
    raire fuel dfun cands p tot winner hint = Some out -> out <> [] ->
    match opt dfun cands p tot winner with
    | Val d0 => exists a tw tl d, In (a, tw, tl, d) out /\ (d0 <= d)%Q
    | Top => False
    | Bot => True
    end.
Proof.
  intros fuel dfun cands p tot winner hint out Hnd Hr Hne.
  destruct (raire_model_sound fuel dfun cands p tot winner hint out Hnd Hr Hne) as [H1 [H2 _]].
  assert (Ht : true_set cands p (map rep_assertion (map fst out))).
  { intros a Ha. apply in_map_iff in Ha. destruct Ha as [[[a' tw] tl] [He Hin]]. unfold rep_assertion in He. simpl in He.
    subst a'. apply (H1 a tw tl Hin). }
  pose proof (opt_dec_correct dfun cands p tot winner Hnd) as Ho.
  destruct (opt dfun cands p tot winner) as [|d0|]; [exact I | |].
  - destruct Ho as [_ Ho]. destruct (Ho _ Ht H2) as [a [Ha Hd]].
    apply in_map_iff in Ha. destruct Ha as [[[a' tw] tl] [He Hin]]. unfold rep_assertion in He. simpl in He. subst a'.
    apply in_map_iff in Hin. destruct Hin as [[[[a2 tw2] tl2] d2] [He2 Hin2]]. simpl in He2. inversion He2. subst a2 tw2 tl2.
    exists a, tw, tl, d2. split; [exact Hin2|].
    rewrite (raire_model_difficulties fuel dfun cands p tot winner hint out Hr a tw tl d2 Hin2).
    destruct (H1 a tw tl) as [_ [Hw [Hl _]]].
    { apply in_map_iff. exists (a, tw, tl, d2). split; [reflexivity | exact Hin2]. }
    unfold diff_of in Hd. rewrite Hw, Hl in Hd. exact Hd.
  - apply Ho. exists (map rep_assertion (map fst out)). split; assumption.
Qed.
Print Assumptions raire_model_max_ge_opt.
