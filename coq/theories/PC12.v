(* PC12.v — property C12: test statistics equal their published definitions; ALPHA and betting forms agree.
   Only statements, each closed by `exact`. Model: NNM.v. *)
From SV Require Import NNM NNM_machines NNM_ranges NNM_spec NNM_hist NNM_wf NNM_prefix NNM_defs NNM_kaplan NNM_risk_kk NNM_kaplan_defs.
Open Scope Q_scope.

(* the model's terms (before p = min(1,1/T)) are, entry by entry, the sequential specification `spec_terms`:
   exact product while every null mean so far is strictly inside (0,u); 1 / +inf conventions afterwards *)
Theorem C12_alpha_is_spec : forall sqrtq e N t u xs,
  0 < u -> 0 < t < u -> sample_ok N u xs ->
  model_terms (alpha_factor u) N t u (0, 1%Z) (Fin 1) xs (alpha_etas sqrtq e N t u xs)
  = spec_terms (alpha_factor_q u) N t u (0, 1%Z) 1 Alive xs (alpha_etas sqrtq e N t u xs).
Proof. exact alpha_terms_eq_spec. Qed.
Print Assumptions C12_alpha_is_spec.

(* published definition: where all mu_i are strictly inside (0,u), term j is built from
   T_j = prod_{i<=j} (x_i eta_i/mu_i + (u-x_i)(u-eta_i)/(u-mu_i))/u   [alpha_factor_q]   resp.
   T_j = prod_{i<=j} (1 + lam_i (x_i - mu_i))                          [betting_factor_q] *)
Theorem C12_product_def : forall facq N t u xs es s T,
  Forall (fun m => 0 < m /\ m < u) (mscan (mu_out N t) sj_step s xs) ->
  spec_terms facq N t u s T Alive xs es
  = map2 (fun m T' => spec_entry u m T' Alive) (mscan (mu_out N t) sj_step s xs)
         (qcumprod T (map3 facq xs es (mscan (mu_out N t) sj_step s xs))).
Proof. exact spec_terms_alive. Qed.
Print Assumptions C12_product_def.

Theorem C12_entry_is_min_1_inv_T : forall u m T,
  band u m = false -> isclose_q 0 T rtol_default atol_np = false -> ~ T == 0 ->
  pv (spec_entry u m T Alive) = xmin_np (Fin 1) (Fin (1 / T)).
Proof. exact pv_alive_entry. Qed.
Print Assumptions C12_entry_is_min_1_inv_T.

(* mu_j = (N t - sum_{k<j} x_k)/(N - j + 1) for finite N, t otherwise *)
Theorem C12_mu_formula : forall N t xs j, (j < length xs)%nat ->
  nth_error (mu_list N t xs) j = Some (mu_at N t (qsum (firstn j xs)) (1 + Z.of_nat j)).
Proof. exact mu_list_nth. Qed.
Print Assumptions C12_mu_formula.

(* p = 0 once the observed total exceeds N t (mu_j < 0), p = 1 where mu_j > u, whatever the running product is *)
Theorem C12_zero_after_excess_one_above_u : forall facX N t u s acc xs es,
  0 < u -> length es = length xs ->
  Forall2 (fun m tm => (m < 0 -> tm = PInf /\ pv tm = Fin 0) /\ (u < m -> tm = Fin 1 /\ pv tm = Fin 1))
          (mscan (mu_out N t) sj_step s xs) (model_terms facX N t u s acc xs es).
Proof. exact model_terms_boundary. Qed.
Print Assumptions C12_zero_after_excess_one_above_u.

(* ALPHA and betting give identical results whenever eta_i = mu_i (1 + lam_i (u - mu_i)) *)
Theorem C12_alpha_eq_betting : forall N t u, 0 < u -> 0 < t < u -> forall xs lams,
  sample_ok N u xs -> length lams = length xs ->
  Forall2 (fun l m => 0 <= l /\ (0 < m -> m <= u -> l <= 1 / m)) lams (mu_list N t xs) ->
  finish_terms N t xs
    (model_terms (alpha_factor u) N t u (0, 1%Z) (Fin 1) xs
                 (map2 (clamp_eta u) (map2 (lam_to_eta u) lams (mu_list N t xs)) (mu_list N t xs)))
  = finish_terms N t xs (model_terms betting_factor N t u (0, 1%Z) (Fin 1) xs lams).
Proof. exact alpha_eq_betting. Qed.
Print Assumptions C12_alpha_eq_betting.

Theorem C12_conversions_inverse : forall u a mu, ~ mu == 0 -> ~ u - mu == 0 ->
  eta_to_lam u (lam_to_eta u a mu) mu == a /\ lam_to_eta u (eta_to_lam u a mu) mu == a.
Proof. intros u a mu H1 H2. split; [exact (lam_eta_lam u a mu H1 H2) | exact (eta_lam_eta u a mu H1 H2)]. Qed.
Print Assumptions C12_conversions_inverse.

(* Kaplan-Wald, Kaplan-Markov, Kaplan-Kolmogorov and the SPRT generalisation *)
Theorem C12_kaplan_wald_def : forall g ro t xs,
  snd (kaplan_wald g ro t xs) = map (fun T => pvr (Fin T)) (qprods 1 (map (fun x => (1 - g) * x / t + g) xs)).
Proof. exact kaplan_wald_def. Qed.
Print Assumptions C12_kaplan_wald_def.

Theorem C12_kaplan_markov_def : forall g ro t xs,
  0 < t + g -> Forall (fun x => 0 < x + g) xs ->
  snd (kaplan_markov g ro t xs) = map (fun h => cap1 (Fin h)) (qprods 1 (map (fun x => (t + g) / (x + g)) xs)).
Proof. exact kaplan_markov_def. Qed.
Print Assumptions C12_kaplan_markov_def.

Theorem C12_kaplan_kolmogorov_def : forall n t g xs,
  kk_ok n t g (kinit) xs ->
  kk_terms_from n (t + g) (0, 1%Z) false (Fin 1) (map (fun x => x + g) xs) = map Fin (kTs n t g kinit xs).
Proof. exact kaplan_kolmogorov_def. Qed.
Print Assumptions C12_kaplan_kolmogorov_def.

Theorem C12_wald_sprt_def : forall sqrtq eta ro N t u xs,
  snd (wald_sprt sqrtq eta ro N t u xs) = snd (alpha_mart sqrtq (EFixed eta) N t u xs).
Proof. exact wald_sprt_def. Qed.
Print Assumptions C12_wald_sprt_def.

Example C12_nonvacuous :
  Forall (fun m => 0 < m /\ m < 1) (mu_list (Some 10%Z) (1#2) [1; 0; (1#2); 1])
  /\ snd (betting_mart sqrt_exec (BFixed (1#2)) (Some 10%Z) (1#2) 1 [1; 0; (1#2); 1])
     = snd (finish_terms (Some 10%Z) (1#2) [1; 0; (1#2); 1]
             (model_terms (alpha_factor 1) (Some 10%Z) (1#2) 1 (0, 1%Z) (Fin 1) [1; 0; (1#2); 1]
                (map2 (clamp_eta 1) (map2 (lam_to_eta 1) [(1#2); (1#2); (1#2); (1#2)] (mu_list (Some 10%Z) (1#2) [1; 0; (1#2); 1]))
                      (mu_list (Some 10%Z) (1#2) [1; 0; (1#2); 1])))).
Proof. split; [repeat constructor; reflexivity | vm_compute; reflexivity]. Qed.
