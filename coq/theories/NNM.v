(* NNM.v — executable model of shangrla/core/NonnegMean.py (class NonnegMean).
   Each definition names the Python function and the statements it mirrors.
   Numbers are exact rationals; the running products live in Xq so that numpy's
   inf/NaN behaviour at m_j = 0, m_j = u is part of the model.  No proofs here. *)
From SV Require Export Xq.
Open Scope Q_scope.

Definition atol_np : Q := mkq 1 2251799813685248.      (* 2*np.finfo(float).eps = 2^-51 *)
Definition rtol_default : Q := mkq 1 100000.            (* np.isclose default rtol *)
Definition rtol_u : Q := mkq 1 1000000.                 (* rtol=10**-6 passed for isclose(u, m) *)
Definition eps_np : Q := mkq 1 4503599627370496.        (* np.finfo(float).eps = 2^-52 *)

Definition qz (z : Z) : Q := inject_Z z.

(* ---- sequential machines: every running quantity of NonnegMean.py is a fold over the sample whose j-th output
   is produced BEFORE the j-th observation is consumed (numpy computes them vectorised with an explicit shift:
   np.insert(cumsum,0,0)[0:-1], np.insert(..., 0, lam)[0:-1]; the shift is what `out` before `step` expresses) ---- *)
Fixpoint mscan {St B : Type} (out : St -> B) (step : St -> Q -> St) (s : St) (xs : list Q) : list B :=
  match xs with
  | [] => []
  | x :: r => out s :: mscan out step (step s x) r
  end.
Record machine (B : Type) : Type := mkmachine {
  m_St : Type; m_init : m_St; m_out : m_St -> B; m_step : m_St -> Q -> m_St }.
Arguments mkmachine {B} _ _ _ _.
Arguments m_St {B} _.
Arguments m_init {B} _.
Arguments m_out {B} _ _.
Arguments m_step {B} _ _ _.
Definition run_machine {B} (m : machine B) (xs : list Q) : list B :=
  mscan (m_out m) (m_step m) (m_init m) xs.

Definition qsum (xs : list Q) : Q := fold_left (fun a x => Qred (a + x)) xs 0.

(* ---- sjm (NonnegMean.sjm L167-174): S_j = sum of the first j-1 values; m_j = (N t - S_j)/(N - j + 1) if N finite else t;
   j runs 1,2,... ---- *)
Definition mu_at (N : option Z) (t S : Q) (j : Z) : Q :=
  match N with
  | Some n => Qred ((qz n * t - S) / (qz n - qz j + 1))
  | None => t
  end.
Definition sj_step (s : Q * Z) (x : Q) : Q * Z := (Qred (fst s + x), (snd s + 1)%Z).
Definition mu_machine (N : option Z) (t : Q) : machine Q :=
  mkmachine (Q * Z)%type (0, 1%Z) (fun s => mu_at N t (fst s) (snd s)) sj_step.
Definition mu_list (N : option Z) (t : Q) (xs : list Q) : list Q := run_machine (mu_machine N t) xs.

(* ---- welford_mean_var (L8-18): running mean and running population variance.
   state (k observations seen, mean, M2, var = M2/k) ---- *)
Record wstate := mkw { w_k : Z; w_mean : Q; w_m2 : Q; w_var : Q }.
Definition w0 : wstate := mkw 0 0 0 0.
Definition wstep (w : wstate) (x : Q) : wstate :=
  let k' := (w_k w + 1)%Z in
  let mean' := Qred (w_mean w + (x - w_mean w) / qz k') in
  let m2' := Qred (w_m2 w + (x - w_mean w) * (x - mean')) in
  mkw k' mean' m2' (Qred (m2' / qz k')).
(* first element: m=[x0], v=[0]: from w0, mean' = x0 and m2' = (x0-0)*(x0-x0) = 0 *)

Section Estimators.
Variable sqrtq : Q -> Q.

(* ---- fixed_alternative_mean (L250-262, repaired: clipped to [0,u]) ---- *)
Definition clipq (lo hi x : Q) : Q := Qminb hi (Qmaxb lo x).  (* np.clip = minimum(hi, maximum(lo, x)) *)
Definition fixed_alt_machine (N : option Z) (u eta : Q) : machine Q :=
  mkmachine (Q * Z)%type (0, 1%Z) (fun s => clipq 0 u (mu_at N eta (fst s) (snd s))) sj_step.
Definition fixed_alternative_mean (N : option Z) (u eta : Q) (xs : list Q) : list Q :=
  run_machine (fixed_alt_machine N u eta) xs.

(* ---- shrink_trunc (L304-322).  sdj = insert(maximum(sqrt(v), minsd), 0, 1)[0:-1]; sdj[1:2] = 1:
   the sd used for draw j is 1 for j <= 2, else max(sqrt(variance of the first j-1 draws), minsd) ---- *)
Definition shrink_out (N : option Z) (t u eta c d f minsd : Q) (s : (Q * Z) * wstate) : Q :=
  let S := fst (fst s) in let j := snd (fst s) in
  let m := mu_at N t S j in
  let dj := d + qz j - 1 in
  let sd := if (j <=? 2)%Z then 1 else Qmaxb (sqrtq (w_var (snd s))) minsd in
  let weighted := ((d * eta + S) / dj + u * f / sd) / (1 + f / sd) in
  Qred (Qminb (u * (1 - eps_np)) (Qmaxb weighted (m + c / sqrtq dj))).
Definition shrink_machine (N : option Z) (t u eta c d f minsd : Q) : machine Q :=
  mkmachine ((Q * Z) * wstate)%type ((0, 1%Z), w0) (shrink_out N t u eta c d f minsd)
            (fun s x => (sj_step (fst s) x, wstep (snd s) x)).
Definition shrink_trunc (N : option Z) (t u eta c d f minsd : Q) (xs : list Q) : list Q :=
  run_machine (shrink_machine N t u eta c d f minsd) xs.

(* ---- optimal_comparison (L353-354, repaired: clipped to [0,u]); a scalar, broadcast ---- *)
Definition optimal_comparison_eta (u p2 : Q) : Q :=
  clipq 0 u ((1 - u * (1 - p2)) / (2 - 2 * u) + u * (1 - p2) - (1 # 2)).

(* ---- fixed_bet (L367) ---- *)
Definition fixed_bet (lam : Q) (xs : list Q) : list Q := map (fun _ => lam) xs.

(* ---- agrapa (L411-433, repaired: 0/0 -> 0).
   lamj_raw[k] = (mean_k - t_adj_k)/(var_k + (t_adj_k - mean_k)^2) with 0/0 -> 0, then shifted right with lam first;
   c_k = c0 + (cmax-c0)*(1 - 1/(1 + cgrow*sqrt(k))), k = 0,1,..; result max(0, min(c_k/t_adj_k, lamj_k)).
   state: ((S, k+1), t_adj of the previous position, welford state of the draws seen) ---- *)
Definition agrapa_raw (tadj mean var : Q) : Q :=
  let den := var + (tadj - mean) * (tadj - mean) in
  if Qeq_bool den 0 then 0 else (mean - tadj) / den.
Definition agrapa_out (N : option Z) (t lam c0 cmax cgrow : Q) (s : ((Q * Z) * Q) * wstate) : Q :=
  let S := fst (fst (fst s)) in let j := snd (fst (fst s)) in   (* j = k+1 *)
  let ta := mu_at N t S j in
  let l := if (j <=? 1)%Z then lam else agrapa_raw (snd (fst s)) (w_mean (snd s)) (w_var (snd s)) in
  let c := c0 + (cmax - c0) * (1 - 1 / (1 + cgrow * sqrtq (qz (j - 1)))) in
  let capped := if Qeq_bool ta 0 then l      (* c/0 = +inf: np.minimum(inf, l) = l *)
                else Qminb (c / ta) l in
  Qred (Qmaxb 0 capped).
Definition agrapa_machine (N : option Z) (t lam c0 cmax cgrow : Q) : machine Q :=
  mkmachine (((Q * Z) * Q) * wstate)%type (((0, 1%Z), 0), w0) (agrapa_out N t lam c0 cmax cgrow)
            (fun s x => ((sj_step (fst (fst s)) x, mu_at N t (fst (fst (fst s))) (snd (fst (fst s)))), wstep (snd s) x)).
Definition agrapa (N : option Z) (t lam c0 cmax cgrow : Q) (xs : list Q) : list Q :=
  run_machine (agrapa_machine N t lam c0 cmax cgrow) xs.

(* ---- lam_to_eta / eta_to_lam (L451, L469) ---- *)
Definition lam_to_eta (u lam mu : Q) : Q := mu * (1 + lam * (u - mu)).
Definition eta_to_lam (u eta mu : Q) : Q := (eta / mu - 1) / (u - mu).

(* ---- configuration ---- *)
Inductive estim_kind :=
| EFixed (eta : Q)
| EShrink (eta c d f minsd : Q)
| EOptComp (p2 : Q).
Inductive bet_kind :=
| BFixed (lam : Q)
| BAgrapa (lam c0 cmax cgrow : Q).

Definition const_machine (v : Q) : machine Q := mkmachine unit tt (fun _ => v) (fun s _ => s).
Definition estim_machine (e : estim_kind) (N : option Z) (t u : Q) : machine Q :=
  match e with
  | EFixed eta => fixed_alt_machine N u eta
  | EShrink eta c d f minsd => shrink_machine N t u eta c d f minsd
  | EOptComp p2 => const_machine (optimal_comparison_eta u p2)
  end.
Definition bet_machine (b : bet_kind) (N : option Z) (t u : Q) : machine Q :=
  match b with
  | BFixed lam => const_machine lam
  | BAgrapa lam c0 cmax cgrow => agrapa_machine N t lam c0 cmax cgrow
  end.
Definition run_estim (e : estim_kind) (N : option Z) (t u : Q) (xs : list Q) : list Q :=
  run_machine (estim_machine e N t u) xs.
Definition run_bet (b : bet_kind) (N : option Z) (t u : Q) (xs : list Q) : list Q :=
  run_machine (bet_machine b N t u) xs.

(* ---- the martingale tests ---- *)
Fixpoint map3 {A B C D} (f : A -> B -> C -> D) (a : list A) (b : list B) (c : list C) : list D :=
  match a, b, c with
  | x :: a', y :: b', z :: c' => f x y z :: map3 f a' b' c'
  | _, _, _ => []
  end.
Fixpoint map2 {A B C} (f : A -> B -> C) (a : list A) (b : list B) : list C :=
  match a, b with
  | x :: a', y :: b' => f x y :: map2 f a' b'
  | _, _ => []
  end.

(* terms[np.cumsum(hit(factors)) > 0] = v : from the first factor satisfying `hit` on, the entry is v
   (NonnegMean.py: a zero factor is absorbing even after the float product has overflowed; in Kaplan-Markov, where
   the p-value itself is accumulated, an infinite factor is).  The running product itself is not changed. *)
Definition xis_zero (a : Xq) : bool := match a with Fin q => Qeq_bool q 0 | _ => false end.
Definition xis_inf (a : Xq) : bool := match a with PInf | NInf => true | _ => false end.
Fixpoint absorb (hit : Xq -> bool) (v : Xq) (seen : bool) (fs terms : list Xq) : list Xq :=
  match fs, terms with
  | f :: fr, tm :: tr => let seen' := seen || hit f in (if seen' then v else tm) :: absorb hit v seen' fr tr
  | _, _ => []
  end.

(* (x*eta/m + (u-x)*(u-eta)/(u-m))/u evaluated with numpy's division rules *)
Definition alpha_factor (u x eta m : Q) : Xq :=
  xdiv (xadd (xdiv (Fin (x * eta)) (Fin m)) (xdiv (Fin ((u - x) * (u - eta))) (Fin (u - m)))) (Fin u).
(* 1 + lam*(x - m): always finite *)
Definition betting_factor (x lam m : Q) : Xq := Fin (1 + lam * (x - m)).

(* the five per-entry overrides of alpha_mart L129-135 / betting_mart L217-223, in order *)
Definition override_entry (u m : Q) (term : Xq) : Xq :=
  let t1 := if Qlt_bool u m then Fin 0 else term in
  let t2 := if isclose_q 0 m rtol_default atol_np then Fin 1 else t1 in
  let t3 := if isclose_q u m rtol_u atol_np then Fin 1 else t2 in
  let t4 := if isclose_x 0 t3 rtol_default atol_np then Fin 1 else t3 in
  if Qlt_bool m 0 then PInf else t4.
(* terms[-1] = inf if Stot > N*t *)
Fixpoint set_last {A} (l : list A) (v : A) : list A :=
  match l with
  | [] => []
  | [_] => [v]
  | a :: r => a :: set_last r v
  end.
Definition stot_exceeds (N : option Z) (t : Q) (xs : list Q) : bool :=
  match N with Some n => Qlt_bool (qz n * t) (qsum xs) | None => false end.
Definition finish_mart (N : option Z) (t u : Q) (xs ms : list Q) (raw : list Xq) : Xq * list Xq :=
  let terms := map2 (override_entry u) ms raw in
  let terms := if stot_exceeds N t xs then set_last terms PInf else terms in
  (xmin_py (Fin 1) (xinv (xmax_list terms)), map (fun tm => xmin_np (Fin 1) (xinv tm)) terms).

(* alpha_mart L119-139 (repaired: etaj = minimum(u, maximum(estim(x), m))) *)
Definition alpha_mart (e : estim_kind) (N : option Z) (t u : Q) (xs : list Q) : Xq * list Xq :=
  let ms := mu_list N t xs in
  let etas := map2 (fun est m => Qminb u (Qmaxb est m)) (run_estim e N t u xs) ms in
  let fs := map3 (alpha_factor u) xs etas ms in
  let raw := absorb xis_zero (Fin 0) false fs (xcumprod (Fin 1) fs) in
  finish_mart N t u xs ms raw.

(* betting_mart L207-227 *)
Definition betting_mart (b : bet_kind) (N : option Z) (t u : Q) (xs : list Q) : Xq * list Xq :=
  let ms := mu_list N t xs in
  let lams := run_bet b N t u xs in
  let fs := map3 betting_factor xs lams ms in
  let raw := absorb xis_zero (Fin 0) false fs (xcumprod (Fin 1) fs) in
  finish_mart N t u xs ms raw.

Definition xlast (l : list Xq) : Xq := last l NaN.

(* kaplan_kolmogorov L504-519 (repaired: 0/0 ratio -> 1, m == 0 with a positive draw -> inf); N finite *)
Definition kk_ratio (xg m : Q) : Xq :=
  if Qeq_bool m 0 && Qeq_bool xg 0 then Fin 1 else xdiv (Fin xg) (Fin m).
Definition kk_override (xg m : Q) (term : Xq) : Xq :=
  if Qlt_bool m 0 || (Qeq_bool m 0 && Qlt_bool 0 xg) then PInf else term.
Definition kaplan_kolmogorov (g : Q) (ro : bool) (N : Z) (t : Q) (xs : list Q) : Xq * list Xq :=
  let xg := map (fun x => x + g) xs in
  let ms := mu_list (Some N) (t + g) xg in
  let rs := map2 kk_ratio xg ms in
  let raw := absorb xis_zero (Fin 0) false rs (xcumprod (Fin 1) rs) in
  let terms := map3 kk_override xg ms raw in
  let p0 := if ro then xinv (xmax_list terms) else xinv (xlast terms) in
  (xmin_py p0 (Fin 1), map (fun tm => xmin_np (xinv tm) (Fin 1)) terms).

(* kaplan_markov L551-561: p_history = cumprod((t+g)/(x+g)) *)
Definition kaplan_markov (g : Q) (ro : bool) (t : Q) (xs : list Q) : Xq * list Xq :=
  let fs := map (fun x => xdiv (Fin (t + g)) (Fin (x + g))) xs in
  let hist := absorb xis_inf PInf false fs (xcumprod (Fin 1) fs) in
  let p0 := if ro then xmin_list hist else xlast hist in
  (xmin_np (Fin 1) p0, map (fun h => xmin_np h (Fin 1)) hist).

(* kaplan_wald L594-604: p_history = cumprod((1-g)*x/t + g); reported 1/p_history *)
Definition kaplan_wald (g : Q) (ro : bool) (t : Q) (xs : list Q) : Xq * list Xq :=
  let fs := map (fun x => Fin ((1 - g) * x / t + g)) xs in
  let hist := absorb xis_zero (Fin 0) false fs (xcumprod (Fin 1) fs) in
  let p0 := if ro then xinv (xmax_list hist) else xinv (xlast hist) in
  (xmin_np (Fin 1) p0, map (fun h => xmin_np (xinv h) (Fin 1)) hist).

(* wald_sprt (repaired): ALPHA with the fixed alternative; overall value = last entry when not random_order *)
Definition wald_sprt (eta : Q) (ro : bool) (N : option Z) (t u : Q) (xs : list Q) : Xq * list Xq :=
  let ph := alpha_mart (EFixed eta) N t u xs in
  (if ro then fst ph else xlast (snd ph), snd ph).

Inductive test_kind :=
| TAlpha (e : estim_kind)
| TBetting (b : bet_kind)
| TKK (g : Q)
| TKM (g : Q)
| TKW (g : Q)
| TSprt (eta : Q).

Record cfg := mkcfg { cN : option Z; ct : Q; cu : Q; cro : bool; ctest : test_kind }.

Definition run_test (c : cfg) (xs : list Q) : Xq * list Xq :=
  match ctest c with
  | TAlpha e => alpha_mart e (cN c) (ct c) (cu c) xs
  | TBetting b => betting_mart b (cN c) (ct c) (cu c) xs
  | TKK g => match cN c with Some n => kaplan_kolmogorov g (cro c) n (ct c) xs | None => (NaN, []) end
  | TKM g => kaplan_markov g (cro c) (ct c) xs
  | TKW g => kaplan_wald g (cro c) (ct c) xs
  | TSprt eta => wald_sprt eta (cro c) (cN c) (ct c) (cu c) xs
  end.

(* ---- sample_size L705-712, deterministic branch (repaired: np.tile) ---- *)
Fixpoint tile_to (n : nat) (pat cur : list Q) : list Q :=
  match n with
  | O => []
  | S n' => match cur with
            | [] => match pat with [] => [] | p :: pr => p :: tile_to n' pat pr end
            | c :: cr => c :: tile_to n' pat cr
            end
  end.
Fixpoint first_crossing (alpha : Q) (i : nat) (h : list Xq) : option nat :=
  match h with
  | [] => None
  | p :: r => if xle p (Fin alpha) then Some (S i) else first_crossing alpha (S i) r
  end.
Definition sample_size_det (c : cfg) (alpha : Q) (xs : list Q) : nat :=
  match cN c with
  | Some n =>
      let pop := tile_to (Z.to_nat n) xs xs in
      match first_crossing alpha 0 (snd (run_test c pop)) with
      | Some k => k
      | None => Z.to_nat n
      end
  | None => 0%nat
  end.

End Estimators.
