(* Run_Sampling.v — entry points evaluated by the correspondence harness (harness/sampling.py) for the sampling glue of
   shangrla/core/Audit.py.  A case carries the inputs AND the implementation's outputs; agree_* compares inside Coq. *)
From SV Require Export Sampling.
Open Scope Z_scope.

(* ---- equality helpers *)
Fixpoint list_eqb {A} (e : A -> A -> bool) (l m : list A) : bool :=
  match l, m with
  | [], [] => true
  | a :: l', b :: m' => e a b && list_eqb e l' m'
  | _, _ => false
  end.
Definition opt_eqb {A} (e : A -> A -> bool) (a b : option A) : bool :=
  match a, b with Some x, Some y => e x y | None, None => true | _, _ => false end.
Definition res_eqb {A} (e : A -> A -> bool) (a b : res A) : bool :=
  match a, b with Ok x, Ok y => e x y | Err x, Err y => exn_eqb x y | _, _ => false end.
Definition nats_eqb := list_eqb Nat.eqb.
Definition zs_eqb := list_eqb Z.eqb.
Definition thrs_eqb := list_eqb (opt_eqb Z.eqb).
Definition bools_eqb := list_eqb Bool.eqb.
Definition qs_eqb := list_eqb Qeq_bool.

(* cards as (sample number, ids of the contests listed, in dict order); payload = position in the list *)
Definition mkcards_from (k : nat) (l : list (Z * list Z)) : list (card nat) :=
  map (fun x => mkcard (fst (snd x)) (map (fun c => (c, fst x)) (snd (snd x))) (fst x))
      (combine (seq k (length l)) l).
Definition mkcards := mkcards_from 0%nat.
Fixpoint mkcontests (ids : list Z) (sizes : list nat) (thr : list (option Z)) : list contest :=
  match ids, sizes, thr with
  | i :: ids', n :: sizes', t :: thr' => mkcon i n t :: mkcontests ids' sizes' thr'
  | _, _, _ => []
  end.

(* ---- 1. single calls of CVR.consistent_sampling (fresh or continued, any prior thresholds / flags) *)
Record cs_query := mkqry {
  q_sizes : list nat; q_thr0 : list (option Z); q_prev : option (list nat); q_flags0 : list bool;
  q_sel : res (list nat);             (* returned indices, or the exception *)
  q_thr1 : list (option Z);           (* contest.sample_threshold afterwards *)
  q_flags1 : list bool                (* cvr.sampled afterwards *)
}.
Record cs_case := mkcsc { cs_cards : list (Z * list Z); cs_ids : list Z; cs_queries : list cs_query }.

Definition model_query (c : cs_case) (q : cs_query) :=
  let r := consistent_sampling (mkcards (cs_cards c)) (mkcontests (cs_ids c) (q_sizes q) (q_thr0 q)) (q_prev q) in
  (fst r, map k_thr (snd r),
   match fst r with Ok sel => mark_sampled (q_flags0 q) sel | Err _ => q_flags0 q end).
Definition agree_query (c : cs_case) (q : cs_query) : bool :=
  match model_query c q with
  | (sel, thr, flags) => res_eqb nats_eqb sel (q_sel q) && thrs_eqb thr (q_thr1 q) && bools_eqb flags (q_flags1 q)
  end.
Definition agree_cs (c : cs_case) : bool := forallb (agree_query c) (cs_queries c).
Definition show_cs (c : cs_case) := map (model_query c) (cs_queries c).

(* ---- 2. multi-round histories: consistent_sampling (redraw / continue) -> prep_comparison_sample ->
        mvrs_to_data per contest -> set_p_values (sticky proved), state shared between rounds *)
Record hround := mkhr {
  h_sizes : list nat; h_cont : bool;
  h_sel : res (list nat); h_thr : list (option Z); h_flags : list bool;
  h_mshuf : list nat; h_cshuf : list nat;        (* card positions of the mvr / cvr samples as handed to prep_* *)
  h_prep : res (list Z * list Z);                 (* ids of (mvr_sample, cvr_sample) after prep_comparison_sample *)
  h_poll : res (list Z);                          (* ids of a second shuffled mvr list after prep_polling_sample *)
  h_data : list (res (list Q));                   (* mvrs_to_data(...)[0] per contest *)
  h_pdone : bool; h_p : list Xq; h_proved : list bool   (* set_p_values ran; p_value / proved per contest's assertion *)
}.
Record hist_case := mkhc {
  hc_cards : list (Z * list Z); hc_cardids : list Z;
  hc_ids : list Z; hc_cfg : list (atype * bool);          (* audit_type, use_style per contest *)
  hc_f : list (list Q); hc_g : list (list Q);             (* per contest, per card position: f(mvr_i, cvr_i), g(mvr_i) *)
  hc_risk : list Q; hc_thr0 : list (option Z); hc_proved0 : list bool;
  hc_rounds : list hround
}.

Definition qnth (i : nat) (l : list Q) : Q := nth i l (mkq (-1) 1).
(* the data value of a pair is looked up by card position; a misaligned pair gets the sentinel -2 *)
Definition fval (tab : list Q) (m : nat) (c : card nat) : Q := if Nat.eqb m (c_extra c) then qnth m tab else mkq (-2) 1.
Definition dflt_card : card nat := mkcard (-1) [] 0%nat.
Definition idof (ids : list Z) (i : nat) : Z := nth i ids (-1).

Definition sel_order (ids : list Z) (sel : list nat) : list (Z * Z) :=
  map (fun x => (idof ids (snd x), Z.of_nat (fst x))) (enumerate sel).

Fixpoint data_all (cards : list (card nat)) (sel : list nat) (cons : list contest) (cfg : list (atype * bool))
         (fs gs : list (list Q)) : list (res (list Q)) :=
  match cons, cfg, fs, gs with
  | k :: cons', (ty, us) :: cfg', ft :: fs', gt :: gs' =>
      round_data (fval ft) (fun m => qnth m gt) (fun i => i) dflt_card cards sel ty us k
      :: data_all cards sel cons' cfg' fs' gs'
  | _, _, _, _ => []
  end.
Fixpoint proved_all (risk : list Q) (ps : list Xq) (pr : list bool) : list bool :=
  match risk, ps, pr with
  | r :: risk', p :: ps', b :: pr' => set_proved r p b :: proved_all risk' ps' pr'
  | _, _, _ => []
  end.

Definition agree_round (c : hist_case) (cards : list (card nat)) (st : rstate) (pr : list bool) (h : hround)
  : bool * rstate * list bool :=
  let x := round_step cards st (mkop (h_sizes h) (h_cont h)) in
  let st' := snd x in
  let ok1 := res_eqb nats_eqb (fst x) (h_sel h) && thrs_eqb (map k_thr (r_contests st')) (h_thr h)
             && bools_eqb (r_flags st') (h_flags h) in
  match fst x with
  | Err _ => (ok1, st', pr)
  | Ok sel =>
      let ord := sel_order (hc_cardids c) sel in
      let ok2 := res_eqb (fun a b => zs_eqb (fst a) (fst b) && zs_eqb (snd a) (snd b))
                         (prep_comparison_sample ord (map (idof (hc_cardids c)) (h_mshuf h))
                                                 (map (idof (hc_cardids c)) (h_cshuf h))) (h_prep h)
                 && res_eqb zs_eqb (prep_polling_sample ord (map (idof (hc_cardids c)) (rev (h_mshuf h)))) (h_poll h) in
      let ok3 := list_eqb (res_eqb qs_eqb) (data_all cards sel (r_contests st') (hc_cfg c) (hc_f c) (hc_g c)) (h_data h) in
      let pr' := if h_pdone h then proved_all (hc_risk c) (h_p h) pr else pr in
      (ok1 && ok2 && ok3 && bools_eqb pr' (h_proved h), st', pr')
  end.
Fixpoint agree_rounds (c : hist_case) (cards : list (card nat)) (st : rstate) (pr : list bool) (hs : list hround) : bool :=
  match hs with
  | [] => true
  | h :: r => match agree_round c cards st pr h with
              | (ok, st', pr') => ok && agree_rounds c cards st' pr' r
              end
  end.
Definition hist_init (c : hist_case) : rstate :=
  mkrs (mkcontests (hc_ids c) (map (fun _ => 0%nat) (hc_ids c)) (hc_thr0 c)) (map (fun _ => false) (hc_cards c)) [].
(* the round-by-round comparison, and the model's own loop over rounds (run_rounds, the function the C10 theorems are about) *)
Definition agree_hist (c : hist_case) : bool :=
  agree_rounds c (mkcards (hc_cards c)) (hist_init c) (hc_proved0 c) (hc_rounds c)
  && list_eqb (res_eqb nats_eqb)
       (map fst (run_rounds (mkcards (hc_cards c)) (hist_init c) (map (fun h => mkop (h_sizes h) (h_cont h)) (hc_rounds c))))
       (map h_sel (hc_rounds c)).
(* what the model computes for the successive rounds (selection, thresholds) *)
Definition show_hist (c : hist_case) :=
  map (fun x => (fst x, map k_thr (r_contests (snd x))))
      (run_rounds (mkcards (hc_cards c)) (hist_init c) (map (fun h => mkop (h_sizes h) (h_cont h)) (hc_rounds c))).

(* ---- 3. CVR.assign_sample_nums against the independently recomputed SHA-256 stream:
        (stream from counter 0, counter on entry, lengths of two lists numbered one after the other, numbers given) *)
Definition blank (n : nat) : list (card nat) := map (fun i => mkcard (-1) [] i) (seq 0 n).
Definition agree_asn (c : list Z * nat * nat * nat * list Z * list Z) : bool :=
  match c with
  | (stream, k, n1, n2, nums1, nums2) =>
      let rnd := fun i => nth i stream (-1) in
      let a := assign_sample_nums rnd k (blank n1) in
      let b := assign_sample_nums rnd (snd a) (blank n2) in
      zs_eqb (map c_num (fst a)) nums1 && zs_eqb (map c_num (fst b)) nums2
  end.

(* ---- 4. Assertion.mvrs_to_data alone, boundary stream (mismatched lengths, unset threshold, use_all, style off,
        polling, unknown audit type): fvals / gvals per position *)
Record m2d_case := mkmc {
  m_ty : atype; m_style : bool; m_all : bool; m_cid : Z; m_thr : option Z;
  m_nm : nat;                          (* len(mvr_sample) *)
  m_cs : list (Z * list Z);            (* cvr_sample *)
  m_f : list Q; m_g : list Q;
  m_out : res (list Q)
}.
Definition model_m2d (c : m2d_case) : res (list Q) :=
  mvrs_to_data (fval (m_f c)) (fun m => qnth m (m_g c)) (m_ty c) (m_style c) (m_all c) (m_cid c) (m_thr c)
               (seq 0 (m_nm c)) (mkcards (m_cs c)).
Definition agree_m2d (c : m2d_case) : bool := res_eqb qs_eqb (model_m2d c) (m_out c).

(* ---- 5. prep_comparison_sample / prep_polling_sample alone: (sample_order, mvr ids, cvr ids, outcome, polling outcome) *)
Definition agree_prep (c : list (Z * Z) * list Z * list Z * res (list Z * list Z) * res (list Z)) : bool :=
  match c with
  | (ord, ms, cs, out, pout) =>
      res_eqb (fun a b => zs_eqb (fst a) (fst b) && zs_eqb (snd a) (snd b)) (prep_comparison_sample ord ms cs) out
      && res_eqb zs_eqb (prep_polling_sample ord ms) pout
  end.
Definition show_prep (c : list (Z * Z) * list Z * list Z * res (list Z * list Z) * res (list Z)) :=
  match c with (ord, ms, cs, _, _) => (prep_comparison_sample ord ms cs, prep_polling_sample ord ms) end.
