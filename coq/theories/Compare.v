(* Compare.v — executable model of the comparison-audit glue of shangrla/core/Audit.py (properties C03, C06):
   Assorter.overstatement, Assertion.overstatement_assorter, Assorter.mean, Assertion.set_margin_from_cvrs,
   Assertion.set_all_margins_from_cvrs, Assorter.set_tally_pool_means, CVR.pool_contests, CVR.add_pool_contests,
   Assertion.mvrs_to_data and the `asn.test.u = u` installation of Assertion.set_p_values.
   The assorter itself is a black box `A : card -> Q` (plurality, super-majority and the IRV assorters built by
   make_assertions_from_json are all used through `Assorter.assort`); it is a parameter of every function.
   Values are numpy doubles in the code: Xq (Fin q | PInf | NInf | NaN) here, because np.mean([]) and an empty
   pool give NaN.  No proofs in this file. *)
From SV Require Export Xq.
Open Scope Q_scope.

(* What the modelled functions read from a CVR object (Audit.py CVR.__init__ L170-190).
   c_votes is an opaque handle on the vote content: only the assorter looks at it. *)
Record card := mkcard {
  c_phantom : bool;          (* CVR.phantom *)
  c_pool : bool;             (* CVR.pool *)
  c_tp : Z;                  (* CVR.tally_pool (labels numbered by the harness; None is a label too) *)
  c_contests : list Z;       (* keys of CVR.votes, in dict order *)
  c_snum : Q;                (* CVR.sample_num *)
  c_votes : Z                (* handle on the vote content *)
}.

Inductive err := EValue | EKey | EOther.      (* ValueError, KeyError; the model never produces EOther *)
Inductive res (T : Type) := Ok (t : T) | Raise (e : err).
Arguments Ok {T} t.
Arguments Raise {T} e.

(* CVR.has_contest L207-208 *)
Definition has_contest (cid : Z) (c : card) : bool := existsb (Z.eqb cid) (c_contests c).
(* the `filtr` lambdas of Assorter.mean L2464-2467 and Assorter.set_tally_pool_means L2502-2505 *)
Definition style_filter (use_style : bool) (cid : Z) (c : card) : bool :=
  if use_style then has_contest cid c else true.

Definition qsum (l : list Q) : Q := fold_right Qplus 0 l.
Definition qlen {T} (l : list T) : Q := inject_Z (Z.of_nat (length l)).
(* np.mean of a python list: NaN (with a warning) when empty *)
Definition np_mean (l : list Q) : Xq := match l with [] => NaN | _ => Fin (qsum l / qlen l) end.
Definition b2q (b : bool) : Q := if b then 1 else 0.

Inductive atype := Polling | Comparison | OneAudit.      (* Audit.AUDIT_TYPE *)
Definition is_comparison (t : atype) : bool := match t with Polling => false | _ => true end.

(* `2 / (2 - margin / upper_bound)`: set_margin_from_cvrs L1521, set_all_margins_from_cvrs L2272, mvrs_to_data L1657 *)
Definition comparison_u (margin : Xq) (ua : Q) : Xq := xdiv (Fin 2) (xsub (Fin 2) (xdiv margin (Fin ua))).
Definition test_u_for (t : atype) (margin : Xq) (ua : Q) : Xq :=
  if is_comparison t then comparison_u margin ua else Fin ua.
(* `2 * amean - 1`, L1514 and Assertion.margin L1404 *)
Definition margin_of_mean (m : Xq) : Xq := xsub (xmul (Fin 2) m) (Fin 1).

Fixpoint lookup {V} (k : Z) (l : list (Z * V)) : option V :=
  match l with
  | [] => None
  | (k', v) :: r => if (k =? k')%Z then Some v else lookup k r
  end.
Definition dedup (l : list Z) : list Z := nodup Z.eq_dec l.
Definition memz (k : Z) (l : list Z) : bool := existsb (Z.eqb k) l.

Section Assorter.
  Variable A : card -> Q.      (* Assorter.assort *)

  (* Assorter.mean L2446-2468 *)
  Definition assorter_mean (cid : Z) (cvrs : list card) (use_style : bool) : Xq :=
    np_mean (map A (filter (style_filter use_style cid) cvrs)).

  (* Assertion.set_margin_from_cvrs L1486-1525: returns (self.margin, self.test.u) *)
  Definition set_margin_from_cvrs (cid : Z) (t : atype) (ua : Q) (cvrs : list card) (stratum_style : bool) : Xq * Xq :=
    let m := margin_of_mean (assorter_mean cid cvrs stratum_style) in (m, test_u_for t m ua).

  (* Assorter.set_tally_pool_means L2470-2515.
     `if not tally_pools`: None or an empty collection means "the labels of the pooled cards";
     a pooled card (passing the style filter) whose label is not a key raises KeyError at L2507. *)
  Definition pooled_labels (cvrs : list card) : list Z := dedup (map c_tp (filter c_pool cvrs)).
  Definition pool_members (cid : Z) (use_style : bool) (p : Z) (cvrs : list card) : list card :=
    filter (fun c => style_filter use_style cid c && c_pool c && (c_tp c =? p)%Z) cvrs.
  Definition pool_mean (cid : Z) (use_style : bool) (cvrs : list card) (p : Z) : Xq :=
    np_mean (map A (pool_members cid use_style p cvrs)).       (* nan if n == 0 else tot / n *)
  Definition set_tally_pool_means (cid : Z) (cvrs : list card) (arg : option (list Z)) (use_style : bool)
    : res (list (Z * Xq)) :=
    let pools := match arg with Some (p :: r) => dedup (p :: r) | _ => pooled_labels cvrs end in
    if forallb (fun c => memz (c_tp c) pools) (filter (fun c => style_filter use_style cid c && c_pool c) cvrs)
    then Ok (map (fun p => (p, pool_mean cid use_style cvrs p)) pools)
    else Raise EKey.

  (* Assorter.overstatement L2541-2589, in the code's order: sanity check (ValueError); MVR side (phantom or, under
     style, contest missing -> 0); CVR side (pooled and means set -> pool mean, KeyError when the label is missing;
     else phantom/2 + (1-phantom)*assort(cvr)).  A pooled phantom CVR scores its pool mean. *)
  Definition overstatement (cid : Z) (means : option (list (Z * Xq))) (mvr cvr : card) (use_style : bool) : res Xq :=
    if use_style && negb (has_contest cid cvr) then Raise EValue else
    let mvr_assort := if c_phantom mvr || (use_style && negb (has_contest cid mvr)) then 0 else A mvr in
    match (if c_pool cvr then means else None) with
    | Some ms => match lookup (c_tp cvr) ms with
                 | Some m => Ok (xsub m (Fin mvr_assort))
                 | None => Raise EKey
                 end
    | None => Ok (Fin (b2q (c_phantom cvr) / 2 + (1 - b2q (c_phantom cvr)) * A cvr - mvr_assort))
    end.

  (* Assertion.overstatement_assorter L1452-1484: (1 - overstatement/u) / (2 - margin/u) *)
  Definition overstatement_assorter (cid : Z) (means : option (list (Z * Xq))) (margin : Xq) (ua : Q)
             (mvr cvr : card) (use_style : bool) : res Xq :=
    match overstatement cid means mvr cvr use_style with
    | Raise e => Raise e
    | Ok o => Ok (xdiv (xsub (Fin 1) (xdiv o (Fin ua))) (xsub (Fin 2) (xdiv margin (Fin ua))))
    end.
End Assorter.

(* ---- ONEAudit pool bookkeeping on the CVR list ---- *)
(* CVR.pool_contests L583-601: dict tally_pool -> union of the contests on its pooled cards (keys in first-seen order) *)
Definition union (a b : list Z) : list Z := a ++ dedup (filter (fun x => negb (memz x a)) b).
Fixpoint upd (k : Z) (cs : list Z) (d : list (Z * list Z)) : list (Z * list Z) :=
  match d with
  | [] => [(k, union [] cs)]
  | (k', s) :: r => if (k =? k')%Z then (k', union s cs) :: r else (k', s) :: upd k cs r
  end.
Fixpoint pool_contests_from (acc : list (Z * list Z)) (cvrs : list card) : list (Z * list Z) :=
  match cvrs with
  | [] => acc
  | c :: r => pool_contests_from (if c_pool c then upd (c_tp c) (c_contests c) acc else acc) r
  end.
Definition pool_contests (cvrs : list card) : list (Z * list Z) := pool_contests_from [] cvrs.

Definition set_contests (c : card) (l : list Z) : card :=
  mkcard (c_phantom c) (c_pool c) (c_tp c) l (c_snum c) (c_votes c).
(* CVR.update_votes L210-235 with votes = {con: {} for con in cons}: existing contests keep their votes
   (`update({})`), missing ones are appended; returns whether something was appended *)
Definition update_votes (c : card) (cons : list Z) : card * bool :=
  let new := dedup (filter (fun k => negb (has_contest k c)) cons) in
  (set_contests c (c_contests c ++ new), match new with [] => false | _ => true end).
(* CVR.add_pool_contests L604-625: only cards with pool == True whose label is a key are touched *)
Definition apc_one (tps : list (Z * list Z)) (c : card) : card * bool :=
  if c_pool c then match lookup (c_tp c) tps with Some s => update_votes c s | None => (c, false) end
  else (c, false).
Definition add_pool_contests (cvrs : list card) (tps : list (Z * list Z)) : list card * bool :=
  let r := map (apc_one tps) cvrs in (map fst r, existsb snd r).

(* ---- assertions, mvrs_to_data, set_p_values ---- *)
Record asn := mkasn {
  a_A : card -> Q;                          (* assertion.assorter.assort *)
  a_cid : Z;                                (* contest.id *)
  a_style : bool;                           (* contest.use_style *)
  a_type : atype;                           (* contest.audit_type *)
  a_thr : Q;                                (* contest.sample_threshold *)
  a_margin : Xq;                            (* assertion.margin, however it was set *)
  a_ua : Q;                                 (* assertion.assorter.upper_bound *)
  a_means : option (list (Z * Xq));         (* assertion.assorter.tally_pool_means (None if never set) *)
  a_test_u : Xq                             (* assertion.test.u *)
}.
Definition set_test_u (a : asn) (u : Xq) : asn :=
  mkasn (a_A a) (a_cid a) (a_style a) (a_type a) (a_thr a) (a_margin a) (a_ua a) (a_means a) u.

(* the `if` of the comprehension in mvrs_to_data L1648-1654 *)
Definition keep (a : asn) (use_all : bool) (p : card * card) : bool :=
  negb (a_style a) || (has_contest (a_cid a) (snd p) && (use_all || Qle_bool (c_snum (snd p)) (a_thr a))).

Fixpoint collect {T} (l : list (res T)) : res (list T) :=
  match l with
  | [] => Ok []
  | Raise e :: _ => Raise e
  | Ok x :: r => match collect r with Ok xs => Ok (x :: xs) | Raise e => Raise e end
  end.

(* Assertion.mvrs_to_data L1604-1667 (mvr_sample[i], cvr_sample[i] paired by position; set_p_values asserts equal
   lengths): returns (d, u) *)
Definition mvrs_to_data (a : asn) (mvrs cvrs : list card) (use_all : bool) : res (list Xq * Xq) :=
  if is_comparison (a_type a) then
    match collect (map (fun p => overstatement_assorter (a_A a) (a_cid a) (a_means a) (a_margin a) (a_ua a)
                                                         (fst p) (snd p) (a_style a))
                       (filter (keep a use_all) (combine mvrs cvrs))) with
    | Ok d => Ok (d, comparison_u (a_margin a) (a_ua a))
    | Raise e => Raise e
    end
  else Ok (map (fun m => Fin (a_A a m)) mvrs, Fin (a_ua a)).

(* Assertion.set_p_values L2320-2334, the part C06 is about: for every assertion (contests in dict order, assertions
   in dict order, flattened) `d, u = mvrs_to_data(..)`; `asn.test.u = u`; `asn.test.test(d)`.
   A call records the u the test object holds when test() runs, and the data it is given. *)
Record call := mkcall { call_u : Xq; call_d : list Xq }.
Fixpoint set_p_values (asns : list asn) (mvrs cvrs : list card) : res (list asn * list call) :=
  match asns with
  | [] => Ok ([], [])
  | a :: r =>
      match mvrs_to_data a mvrs cvrs false with
      | Raise e => Raise e
      | Ok (d, u) =>
          let a' := set_test_u a u in
          let c := mkcall (a_test_u a') d in
          match set_p_values r mvrs cvrs with
          | Ok (as', cs) => Ok (a' :: as', c :: cs)
          | Raise e => Raise e
          end
      end
  end.

(* Assertion.set_all_margins_from_cvrs L2259-2279 for the flattened assertion list: every assertion gets
   (margin, test.u) from set_margin_from_cvrs, test.u is then assigned again from the same formula; returns the
   updated assertions and min_margin (python builtin min, starting from np.inf) *)
Definition set_margin_asn (a : asn) (cvrs : list card) (stratum_style : bool) : asn :=
  let mu := set_margin_from_cvrs (a_A a) (a_cid a) (a_type a) (a_ua a) cvrs stratum_style in
  mkasn (a_A a) (a_cid a) (a_style a) (a_type a) (a_thr a) (fst mu) (a_ua a) (a_means a)
        (test_u_for (a_type a) (fst mu) (a_ua a)).
Definition set_all_margins_from_cvrs (asns : list asn) (cvrs : list card) (stratum_style : bool) : list asn * Xq :=
  let asns' := map (fun a => set_margin_asn a cvrs stratum_style) asns in
  (asns', fold_left (fun m a => xmin_py m (a_margin a)) asns' PInf).
