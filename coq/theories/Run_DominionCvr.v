(* Run_DominionCvr.v — entry points evaluated by the correspondence harness for Dominion.read_cvrs(_directory).
   A case = options, the export file(s) as written by the harness (ordered structure), and the implementation's
   returned CVR list (id parsed back into its three parts, votes as association lists). *)
From SV Require Export Xq DominionCvr.
Open Scope Z_scope.

Definition optZ_eqb (a b : option Z) : bool :=
  match a, b with Some x, Some y => Z.eqb x y | None, None => true | _, _ => false end.

(* Python dict equality (order-insensitive): same size, distinct keys, every binding found *)
Fixpoint keys_distinct {V} (d : dict V) : bool :=
  match d with [] => true | (k, _) :: r => negb (memZ k (map fst r)) && keys_distinct r end.
Definition dict_eqb {V} (veq : V -> V -> bool) (a b : dict V) : bool :=
  Nat.eqb (length a) (length b) && keys_distinct a && keys_distinct b &&
  forallb (fun kv => match dget (fst kv) b with Some v => veq (snd kv) v | None => false end) a.

Definition cvr_eqb (a b : cvr) : bool :=
  (let '(t1, b1, r1) := r_id a in let '(t2, b2, r2) := r_id b in Z.eqb t1 t2 && Z.eqb b1 b2 && optZ_eqb r1 r2) &&
  (Z.eqb (fst (r_tally_pool a)) (fst (r_tally_pool b)) && Z.eqb (snd (r_tally_pool a)) (snd (r_tally_pool b))) &&
  Bool.eqb (r_pool a) (r_pool b) &&
  dict_eqb (dict_eqb Z.eqb) (r_votes a) (r_votes b).

Record dom_case := mkDomCase {
  k_opts : opts;
  k_files : list (list session);      (* one entry per CvrExport_*.json in sorted-name order *)
  k_impl : list cvr                   (* what read_cvrs / read_cvrs_directory returned, in order *)
}.

Definition model_dom (c : dom_case) : list cvr := read_cvrs_directory (k_opts c) (k_files c).
Definition agree_dom (c : dom_case) : bool := all2 cvr_eqb (model_dom c) (k_impl c).
Definition show_dom (c : dom_case) := model_dom c.
