(* NNM_ranges.v — ranges of the shipped estimators and bets (property C13) *)
From SV Require Import NNM NNM_machines.
Open Scope Q_scope.

Lemma div_nonneg a b : 0 <= a -> 0 < b -> 0 <= a / b.
Proof. intros Ha Hb. apply Qle_shift_div_l; auto. lra. Qed.
Lemma div_pos a b : 0 < a -> 0 < b -> 0 < a / b.
Proof. intros Ha Hb. apply Qlt_shift_div_l; auto. lra. Qed.

Lemma Qminb_le_l a b : Qminb a b <= a.
Proof. destruct (Qminb_spec a b) as [[H E]|[H E]]; rewrite E; lra. Qed.
Lemma Qminb_le_r a b : Qminb a b <= b.
Proof. destruct (Qminb_spec a b) as [[H E]|[H E]]; rewrite E; lra. Qed.
Lemma Qminb_glb a b c : c <= a -> c <= b -> c <= Qminb a b.
Proof. intros. destruct (Qminb_spec a b) as [[H1 E]|[H1 E]]; rewrite E; lra. Qed.
Lemma Qminb_glb_lt a b c : c < a -> c < b -> c < Qminb a b.
Proof. intros. destruct (Qminb_spec a b) as [[H1 E]|[H1 E]]; rewrite E; lra. Qed.
Lemma Qmaxb_ge_l a b : a <= Qmaxb a b.
Proof. destruct (Qmaxb_spec a b) as [[H E]|[H E]]; rewrite E; lra. Qed.
Lemma Qmaxb_ge_r a b : b <= Qmaxb a b.
Proof. destruct (Qmaxb_spec a b) as [[H E]|[H E]]; rewrite E; lra. Qed.
Lemma Qmaxb_lub a b c : a <= c -> b <= c -> Qmaxb a b <= c.
Proof. intros. destruct (Qmaxb_spec a b) as [[H1 E]|[H1 E]]; rewrite E; lra. Qed.

Lemma clipq_range lo hi x : lo <= hi -> lo <= clipq lo hi x <= hi.
Proof.
  intro H. unfold clipq. split.
  - apply Qminb_glb; auto. apply Qmaxb_ge_l.
  - apply Qminb_le_l.
Qed.

Lemma eps_np_pos : 0 < eps_np /\ eps_np < 1.
Proof. unfold eps_np, mkq. split; reflexivity. Qed.

Definition in_range (u : Q) (xs : list Q) : Prop := Forall (fun x => 0 <= x <= u) xs.
Definition sj_inv (s : Q * Z) : Prop := 0 <= fst s /\ (1 <= snd s)%Z.

Lemma sj_inv_step u s x : sj_inv s -> 0 <= x <= u -> sj_inv (sj_step s x).
Proof.
  intros [H1 H2] [Hx _]. unfold sj_inv, sj_step; cbn [fst snd]. split; [|lia].
  rewrite Qred_correct. lra.
Qed.
Lemma sj_inv_init : sj_inv (0, 1%Z).
Proof. unfold sj_inv; simpl; split; [lra|lia]. Qed.

Lemma qz_ge1 j : (1 <= j)%Z -> 1 <= qz j.
Proof. intro H. unfold qz. change 1 with (inject_Z 1). rewrite <- Zle_Qle. exact H. Qed.

Section Ranges.
Variable sqrtq : Q -> Q.
Hypothesis sqrt_pos : forall x, 0 < x -> 0 < sqrtq x.
Hypothesis sqrt_nonneg : forall x, 0 <= sqrtq x.

(* fixed alternative: always inside [0,u] *)
Lemma fixed_alt_range N u eta xs :
  0 <= u -> Forall (fun e => 0 <= e <= u) (fixed_alternative_mean N u eta xs).
Proof.
  intro Hu. unfold fixed_alternative_mean, run_machine; simpl.
  apply (mscan_Forall _ _ (fun _ => True) (fun _ => True)); auto.
  - intros s _. now apply clipq_range.
  - clear. induction xs; constructor; auto.
Qed.

Lemma optimal_comparison_range u p2 : 0 <= u -> 0 <= optimal_comparison_eta u p2 <= u.
Proof. intro Hu. now apply clipq_range. Qed.

(* shrink_trunc: inside [0, u], and strictly above the null conditional mean when that mean is below u(1-eps) *)
Section Shrink.
Variables (N : option Z) (t u eta c d f minsd : Q).
Hypothesis Hu : 0 < u.
Hypothesis Heta : 0 <= eta.
Hypothesis Hc : 0 < c.
Hypothesis Hd : 0 < d.
Hypothesis Hf : 0 <= f.
Hypothesis Hminsd : 0 < minsd.

Lemma shrink_out_range s : sj_inv (fst s) ->
  0 <= shrink_out sqrtq N t u eta c d f minsd s <= u
  /\ (mu_at N t (fst (fst s)) (snd (fst s)) < u * (1 - eps_np) ->
      mu_at N t (fst (fst s)) (snd (fst s)) < shrink_out sqrtq N t u eta c d f minsd s).
Proof.
  intros [HS Hj]. unfold shrink_out.
  set (S := fst (fst s)) in *. set (j := snd (fst s)) in *.
  set (m := mu_at N t S j).
  set (dj := d + qz j - 1).
  set (sd := if (j <=? 2)%Z then 1 else Qmaxb (sqrtq (w_var (snd s))) minsd).
  assert (Hdj : 0 < dj). { unfold dj. pose proof (qz_ge1 j Hj). lra. }
  assert (Hsd : 0 < sd).
  { unfold sd. destruct (j <=? 2)%Z; [lra|]. pose proof (Qmaxb_ge_r (sqrtq (w_var (snd s))) minsd). lra. }
  set (weighted := ((d * eta + S) / dj + u * f / sd) / (1 + f / sd)).
  assert (Hw : 0 <= weighted).
  { unfold weighted. apply div_nonneg.
    - assert (0 <= (d * eta + S) / dj) by (apply div_nonneg; nra).
      assert (0 <= u * f / sd) by (apply div_nonneg; nra). lra.
    - assert (0 <= f / sd) by (apply div_nonneg; auto). lra. }
  assert (He : 0 < c / sqrtq dj) by (apply div_pos; auto).
  pose proof eps_np_pos as [He1 He2].
  rewrite Qred_correct.
  set (mx := Qmaxb weighted (m + c / sqrtq dj)).
  assert (Hmx1 : weighted <= mx) by apply Qmaxb_ge_l.
  assert (Hmx2 : m + c / sqrtq dj <= mx) by apply Qmaxb_ge_r.
  assert (Hcap : 0 <= u * (1 - eps_np) <= u) by nra.
  split; [split|].
  - apply Qminb_glb; lra.
  - pose proof (Qminb_le_l (u * (1 - eps_np)) mx). lra.
  - intro Hm. apply Qminb_glb_lt; lra.
Qed.

Theorem shrink_trunc_range xs : in_range u xs ->
  Forall (fun e => 0 <= e <= u) (shrink_trunc sqrtq N t u eta c d f minsd xs).
Proof.
  intro Hx. unfold shrink_trunc, run_machine; simpl.
  apply (mscan_Forall _ _ (fun s => sj_inv (fst s)) (fun x => 0 <= x <= u)); auto.
  - intros s x Hs Hxx. simpl. eapply sj_inv_step; eauto.
  - intros s Hs. now apply shrink_out_range.
  - simpl. apply sj_inv_init.
Qed.

Theorem shrink_trunc_above_mu xs : in_range u xs ->
  Forall2 (fun e m => m < u * (1 - eps_np) -> m < e)
          (shrink_trunc sqrtq N t u eta c d f minsd xs) (mu_list N t xs).
Proof.
  intro Hx. unfold shrink_trunc, mu_list, run_machine; simpl.
  apply (mscan_Forall2 _ _ _ _ (fun s1 s2 => fst s1 = s2 /\ sj_inv s2) (fun x => 0 <= x <= u)); auto.
  - intros s1 s2 x [E Hs] Hxx; simpl; subst. split; auto. eapply sj_inv_step; eauto.
  - intros s1 s2 [E Hs]; subst. apply shrink_out_range. auto.
  - simpl. split; auto. apply sj_inv_init.
Qed.
End Shrink.

(* bets *)
Lemma fixed_bet_range lam u xs :
  0 < u -> 0 <= lam <= 1 / u ->
  Forall (fun l => 0 <= l /\ forall m, 0 < m <= u -> l <= 1 / m) (fixed_bet lam xs).
Proof.
  intros Hu [H0 H1]. unfold fixed_bet. induction xs as [|x r IH]; simpl; constructor; auto.
  split; auto. intros m [Hm1 Hm2].
  apply Qle_trans with (1 / u); auto.
  apply Qle_shift_div_l; auto.
  assert (E : 1 / u * m == m / u) by (field; lra). rewrite E.
  apply Qle_shift_div_r; auto. lra.
Qed.

Section Agrapa.
Variables (N : option Z) (t lam c0 cmax cgrow : Q).
Hypothesis Hc0 : 0 < c0.
Hypothesis Hc01 : c0 <= cmax.
Hypothesis Hcm : cmax < 1.
Hypothesis Hg : 0 <= cgrow.

Definition agrapa_c (k : Z) : Q := c0 + (cmax - c0) * (1 - 1 / (1 + cgrow * sqrtq (qz k))).

Lemma agrapa_c_range k : 0 < agrapa_c k /\ agrapa_c k <= cmax.
Proof.
  unfold agrapa_c. pose proof (sqrt_nonneg (qz k)) as Hs.
  set (z := 1 + cgrow * sqrtq (qz k)). assert (Hz : 1 <= z) by (unfold z; nra).
  assert (Hi : 0 < 1 / z <= 1).
  { split. apply div_pos; lra. apply Qle_shift_div_r; lra. }
  split; nra.
Qed.

(* every aGRAPA bet is in [0, c_j/mu_j] with c_j <= cmax < 1 wherever mu_j > 0 *)
Lemma agrapa_out_range s :
  let m := mu_at N t (fst (fst (fst s))) (snd (fst (fst s))) in
  0 <= agrapa_out sqrtq N t lam c0 cmax cgrow s
  /\ (0 < m -> agrapa_out sqrtq N t lam c0 cmax cgrow s <= agrapa_c (snd (fst (fst s)) - 1) / m
              /\ agrapa_c (snd (fst (fst s)) - 1) / m < 1 / m).
Proof.
  intro m. unfold agrapa_out. fold m.
  set (j := snd (fst (fst s))).
  set (l := if (j <=? 1)%Z then lam else _).
  fold (agrapa_c (j - 1)).
  pose proof (agrapa_c_range (j - 1)) as [Hcp Hcl].
  set (cc := agrapa_c (j - 1)) in *.
  rewrite Qred_correct.
  split; [apply Qmaxb_ge_l|].
  intro Hm.
  assert (Hne : Qeq_bool m 0 = false) by (apply Qeq_bool_false; lra).
  rewrite Hne.
  assert (Hcm0 : 0 < cc / m) by (apply div_pos; auto).
  split.
  - apply Qmaxb_lub; [lra|]. apply Qminb_le_l.
  - apply Qlt_shift_div_l; auto.
    assert (E : cc / m * m == cc) by (field; lra). rewrite E. lra.
Qed.

Theorem agrapa_range xs :
  Forall2 (fun l m => 0 <= l /\ (0 < m -> l < 1 / m))
          (agrapa sqrtq N t lam c0 cmax cgrow xs) (mu_list N t xs).
Proof.
  unfold agrapa, mu_list, run_machine; simpl.
  apply (mscan_Forall2 _ _ _ _ (fun s1 s2 => fst (fst s1) = s2) (fun _ => True)); auto.
  - intros s1 s2 x E _; simpl; subst; auto.
  - intros s1 s2 E; subst. pose proof (agrapa_out_range s1) as [H0 H1]. split; auto.
    intro Hm. destruct (H1 Hm) as [Ha Hb]. lra.
  - clear. induction xs; constructor; auto.
Qed.
End Agrapa.

End Ranges.

(* the executable square root used in correspondence runs meets the hypotheses *)
Lemma sqrt_exec_nonneg x : 0 <= sqrt_exec x.
Proof.
  unfold sqrt_exec. destruct (Qle_bool x 0); [lra|].
  rewrite Qred_correct. unfold Qle; simpl. pose proof (Z.sqrt_nonneg (Qnum x * Z.pos (Qden x) * 1329227995784915872903807060280344576)). lia.
Qed.
Lemma sqrt_exec_pos x : 0 < x -> 0 < sqrt_exec x.
Proof.
  intro Hx. unfold sqrt_exec.
  assert (E : Qle_bool x 0 = false) by (apply Qle_bool_false; auto). rewrite E.
  rewrite Qred_correct. unfold Qlt in *; simpl in *.
  assert (0 < Qnum x)%Z by lia.
  assert (1 <= Qnum x * Z.pos (Qden x) * 1329227995784915872903807060280344576)%Z by nia.
  assert (1 <= Z.sqrt (Qnum x * Z.pos (Qden x) * 1329227995784915872903807060280344576))%Z.
  { change 1%Z with (Z.sqrt 1). apply Z.sqrt_le_mono. auto. }
  lia.
Qed.
