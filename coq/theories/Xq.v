(* Xq.v — rationals extended with numpy's special values, and shared helpers.
   Fin q | PInf | NInf | NaN with IEEE/numpy rules for + - * /, comparisons,
   np.minimum / np.max (NaN-propagating) and Python's builtin min (not NaN-propagating).
   Signed zeros are NOT modelled (DESIGN.md 1.1). *)
From Coq Require Export QArith ZArith List Bool Lia Lqa Qabs Qminmax.
Export ListNotations.
Open Scope Q_scope.

Definition mkq (n : Z) (d : positive) : Q := Qmake n d.

Definition Qlt_bool (a b : Q) : bool := negb (Qle_bool b a).
Definition Qmaxb (a b : Q) : Q := if Qle_bool a b then b else a.
Definition Qminb (a b : Q) : Q := if Qle_bool a b then a else b.
Definition Qabsb (a : Q) : Q := if Qle_bool 0 a then a else - a.
Definition Qsign (a : Q) : Z := Z.sgn (Qnum a).

Lemma Qlt_bool_iff a b : Qlt_bool a b = true <-> a < b.
Proof.
  unfold Qlt_bool. rewrite negb_true_iff. split; intro H.
  - apply Qnot_le_lt. intro Hc. apply Qle_bool_iff in Hc. congruence.
  - destruct (Qle_bool b a) eqn:E; auto. apply Qle_bool_iff in E. exfalso; lra.
Qed.
Lemma Qle_bool_false a b : Qle_bool a b = false <-> b < a.
Proof.
  split; intro H.
  - apply Qnot_le_lt. intro Hc. apply Qle_bool_iff in Hc. congruence.
  - destruct (Qle_bool a b) eqn:E; auto. apply Qle_bool_iff in E. exfalso; lra.
Qed.
Lemma Qlt_bool_false a b : Qlt_bool a b = false <-> b <= a.
Proof.
  unfold Qlt_bool. rewrite negb_false_iff. apply Qle_bool_iff.
Qed.
Lemma Qeq_bool_false a b : Qeq_bool a b = false <-> ~ a == b.
Proof.
  split; intro H.
  - intro Hc. apply Qeq_bool_iff in Hc. congruence.
  - destruct (Qeq_bool a b) eqn:E; auto. apply Qeq_bool_iff in E. contradiction.
Qed.

Lemma Qmaxb_spec a b : (a <= b /\ Qmaxb a b = b) \/ (b < a /\ Qmaxb a b = a).
Proof. unfold Qmaxb. destruct (Qle_bool a b) eqn:E; [left|right]; split; auto.
  now apply Qle_bool_iff. now apply Qle_bool_false. Qed.
Lemma Qminb_spec a b : (a <= b /\ Qminb a b = a) \/ (b < a /\ Qminb a b = b).
Proof. unfold Qminb. destruct (Qle_bool a b) eqn:E; [left|right]; split; auto.
  now apply Qle_bool_iff. now apply Qle_bool_false. Qed.
Lemma Qabsb_spec a : (0 <= a /\ Qabsb a = a) \/ (a < 0 /\ Qabsb a = - a).
Proof. unfold Qabsb. destruct (Qle_bool 0 a) eqn:E; [left|right]; split; auto.
  now apply Qle_bool_iff. now apply Qle_bool_false. Qed.

Inductive Xq : Type := Fin (q : Q) | PInf | NInf | NaN.

Definition xneg (a : Xq) : Xq :=
  match a with Fin q => Fin (- q) | PInf => NInf | NInf => PInf | NaN => NaN end.

Definition xadd (a b : Xq) : Xq :=
  match a, b with
  | NaN, _ | _, NaN => NaN
  | Fin p, Fin q => Fin (p + q)
  | PInf, NInf | NInf, PInf => NaN
  | PInf, _ | _, PInf => PInf
  | NInf, _ | _, NInf => NInf
  end.
Definition xsub (a b : Xq) : Xq := xadd a (xneg b).

(* sign of a finite value: zero is +0 *)
Definition inf_of_sign (s : Z) : Xq :=
  match s with Z0 => NaN | Zpos _ => PInf | Zneg _ => NInf end.
Definition xsgn (a : Xq) : Z :=
  match a with Fin q => Qsign q | PInf => 1%Z | NInf => (-1)%Z | NaN => 0%Z end.

Definition xmul (a b : Xq) : Xq :=
  match a, b with
  | NaN, _ | _, NaN => NaN
  | Fin p, Fin q => Fin (p * q)
  | _, _ => inf_of_sign (xsgn a * xsgn b)
  end.

Definition xdiv (a b : Xq) : Xq :=
  match a, b with
  | NaN, _ | _, NaN => NaN
  | Fin p, Fin q =>
      if Qeq_bool q 0 then inf_of_sign (Qsign p) (* x/0: +-inf, 0/0: NaN; the zero is +0 *)
      else Fin (p / q)
  | Fin _, _ => Fin 0
  | _, Fin q => if Qeq_bool q 0 then a else inf_of_sign (xsgn a * Qsign q)
  | _, _ => NaN
  end.
Definition xinv (a : Xq) : Xq := xdiv (Fin 1) a.

(* comparisons: false whenever a NaN is involved *)
Definition xle (a b : Xq) : bool :=
  match a, b with
  | NaN, _ | _, NaN => false
  | Fin p, Fin q => Qle_bool p q
  | NInf, _ => true
  | _, PInf => true
  | _, _ => false
  end.
Definition xlt (a b : Xq) : bool :=
  match a, b with
  | NaN, _ | _, NaN => false
  | Fin p, Fin q => Qlt_bool p q
  | NInf, NInf => false
  | PInf, PInf => false
  | NInf, _ => true
  | _, PInf => true
  | _, _ => false
  end.
Definition xisnan (a : Xq) : bool := match a with NaN => true | _ => false end.

(* np.minimum / np.maximum: NaN-propagating *)
Definition xmin_np (a b : Xq) : Xq :=
  match a, b with
  | NaN, _ | _, NaN => NaN
  | _, _ => if xle a b then a else b
  end.
Definition xmax_np (a b : Xq) : Xq :=
  match a, b with
  | NaN, _ | _, NaN => NaN
  | _, _ => if xle a b then b else a
  end.
(* Python builtin min(a, b): returns a unless b < a *)
Definition xmin_py (a b : Xq) : Xq := if xlt b a then b else a.
(* np.max / np.min over a non-empty array (NaN if any NaN) *)
Definition xmax_list (l : list Xq) : Xq :=
  match l with [] => NaN | a :: r => fold_left xmax_np r a end.
Definition xmin_list (l : list Xq) : Xq :=
  match l with [] => NaN | a :: r => fold_left xmin_np r a end.

(* np.isclose(a, b, rtol, atol) for finite a and extended b: |a-b| <= atol + rtol*|b| *)
Definition isclose_q (a b rtol atol : Q) : bool :=
  Qle_bool (Qabsb (a - b)) (atol + rtol * Qabsb b).
Definition isclose_x (a : Q) (b : Xq) (rtol atol : Q) : bool :=
  match b with Fin q => isclose_q a q rtol atol | _ => false end.

(* running product, reduced at every step to keep vm_compute cheap *)
Definition xred (a : Xq) : Xq := match a with Fin q => Fin (Qred q) | _ => a end.
Fixpoint xcumprod (acc : Xq) (l : list Xq) : list Xq :=
  match l with
  | [] => []
  | a :: r => let p := xred (xmul acc a) in p :: xcumprod p r
  end.
Fixpoint qcumprod (acc : Q) (l : list Q) : list Q :=
  match l with
  | [] => []
  | a :: r => let p := Qred (acc * a) in p :: qcumprod p r
  end.

(* ---- comparison helpers used only by the correspondence runs ---- *)
Definition close_q (a b : Q) : bool :=
  (* |a-b| <= 2^-40 + 2^-30 * max(|a|,|b|) *)
  Qle_bool (Qabsb (a - b)) (mkq 1 1099511627776 + mkq 1 1073741824 * Qmaxb (Qabsb a) (Qabsb b)).
Definition close_x (a b : Xq) : bool :=
  match a, b with
  | Fin p, Fin q => close_q p q
  | PInf, PInf | NInf, NInf | NaN, NaN => true
  | _, _ => false
  end.
Fixpoint all2 {A B} (f : A -> B -> bool) (l : list A) (m : list B) : bool :=
  match l, m with
  | [], [] => true
  | a :: l', b :: m' => f a b && all2 f l' m'
  | _, _ => false
  end.
Fixpoint bad_from {A} (f : A -> bool) (i : nat) (l : list A) : list nat :=
  match l with
  | [] => []
  | x :: r => if f x then bad_from f (S i) r else i :: bad_from f (S i) r
  end.
Definition bad_indices {A} (f : A -> bool) (l : list A) : list nat := bad_from f 0%nat l.
Definition pick {A} (is : list nat) (l : list A) : list (option A) := map (fun i => nth_error l i) is.

(* executable square root to 2^-60 relative-ish precision: sqrt(n/d) ~ Z.sqrt(n*d*4^60)/(d*2^60) *)
Definition sqrt_exec (q : Q) : Q :=
  if Qle_bool q 0 then 0 else
  let n := Qnum q in let d := Qden q in
  Qred (Qmake (Z.sqrt (n * Zpos d * 1329227995784915872903807060280344576)) (d * 1152921504606846976)).
