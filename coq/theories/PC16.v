(* placeholder while the harness is brought up; replaced by the real theorem file *)
From SV Require Import SampleSize.
Theorem C16_placeholder : forall n : nat, n = n. Proof. reflexivity. Qed.
