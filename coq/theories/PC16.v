(* PC16.v — property C16: sample-size estimates are first-crossing times on the assumed data.
   Only statements (`exact` of a lemma from SampleSize_proofs.v), Print Assumptions, and non-vacuity Examples.
   Model: SampleSize.v (on top of NNM.v); tied to /repo by harness/c16.py on every run. *)
From SV Require Import SampleSize SampleSize_proofs.
Open Scope Q_scope.

(* ---------------------------------------------------------------------------------------------------------------
   1. The hypothetical population of the deterministic branch is the pilot data TILED to length N. *)
Theorem C16_tiling : forall (N : nat) (x : list Q), x <> [] ->
  length (tile_to N x x) = N /\
  forall i d, (i < N)%nat -> nth i (tile_to N x x) d = nth (i mod length x) x d.
Proof. exact tiling. Qed.
Print Assumptions C16_tiling.
(* non-vacuity: non-constant pilot data whose length does not divide N (np.repeat would give 0,0,1,1,1) *)
Example C16_tiling_ex : tile_to 5 [0; 1; 1] [0; 1; 1] = [0; 1; 1; 0; 1].
Proof. reflexivity. Qed.

(* ---------------------------------------------------------------------------------------------------------------
   2. NonnegMean.sample_size(x, alpha), reps None, returns the 1-based index of the first entry of the p-value
      history of the test on the tiled population that is <= alpha (NaN entries never count), and N if there is none.
      (k is determined uniquely by these conditions: SampleSize_proofs.is_first_crossing_unique.) *)
Theorem C16_first_crossing : forall (sqrtq : Q -> Q) (c : cfg) (alpha : Q) (x : list Q) (n : Z),
  cN c = Some n -> x <> [] ->
  let N := Z.to_nat n in
  let h := hist sqrtq c (tile_to N x x) in
  exists k, ss_det sqrtq c alpha x = Ok k /\ k = crossing_or alpha N h /\
    (((1 <= k <= length h)%nat /\ xle (nth (k - 1) h NaN) (Fin alpha) = true /\
      forall j, (j < k - 1)%nat -> xle (nth j h NaN) (Fin alpha) = false)
     \/ ((forall j, (j < length h)%nat -> xle (nth j h NaN) (Fin alpha) = false) /\ k = N)).
Proof. exact ss_det_first_crossing. Qed.
Print Assumptions C16_first_crossing.
(* non-vacuity: Kaplan-Markov, x = (1, 1/2, 1/2), N = 5: history 1/2, 1/2, 1/2, 1/4, 1/4; risk limit 3/10 is first
   met at position 4, inside the final partial copy of the pilot data *)
Example C16_first_crossing_ex :
  ss_det sqrt_exec (mkcfg (Some 5%Z) (1 # 2) 1 true (TKM 0)) (3 # 10) [1; 1 # 2; 1 # 2] = Ok 4%nat.
Proof. vm_compute. reflexivity. Qed.

(* the same at the level of an assertion (data None, reps None): the estimate is the first crossing of the
   assertion's test on the constructed population, which has length N *)
Theorem C16_assertion_first_crossing :
  forall (sqrtq : Q -> Q) (draws : nat -> list Q) (quantile : Q -> list nat -> nat)
         (a : asn) (r1 r2 : option Q) (prefix : bool) (q : Q) (k : nat) (n : Z),
  cN (a_cfg a) = Some n ->
  asn_find sqrtq draws quantile a None r1 r2 None prefix q = Ok k ->
  exists pop, asn_population a r1 r2 = Ok pop /\ length pop = Z.to_nat n /\
    let h := hist sqrtq (a_cfg a) pop in
    k = crossing_or (a_alpha a) (Z.to_nat n) h /\
    (((1 <= k <= length h)%nat /\ xle (nth (k - 1) h NaN) (Fin (a_alpha a)) = true /\
      forall j, (j < k - 1)%nat -> xle (nth j h NaN) (Fin (a_alpha a)) = false)
     \/ ((forall j, (j < length h)%nat -> xle (nth j h NaN) (Fin (a_alpha a)) = false) /\ k = Z.to_nat n)).
Proof. exact asn_find_first_crossing. Qed.
Print Assumptions C16_assertion_first_crossing.

(* ---------------------------------------------------------------------------------------------------------------
   3. Prefix invariance of the simulation branch.  `draws` (numpy's Mersenne Twister) is arbitrary; `quantile` is any
      function fixing constant lists; `nonanticipating` (entry j of the history does not depend on later data, as long
      as later data exist) is a HYPOTHESIS here: it is property C05 (C05_tail), proved for the shipped tests in
      NNM_proofs.v; below it is discharged for Kaplan-Markov to show the statement is not vacuous.
      Two cases, as in DESIGN section 7 (boundary conventions): the prefix's own history crosses at k strictly before
      its last entry; or at k <= |x| when the entry at |x| is computed unclamped, i.e. as an interior entry of a longer
      sample (the `terms[-1] = inf if Stot > N t` override applies to the last entry of whatever sample is tested). *)
Theorem C16_prefix_invariant :
  forall (sqrtq : Q -> Q) (draws : nat -> list Q) (quantile : Q -> list nat -> nat),
  (forall q k n, 0 <= q <= 1 -> quantile q (repeat k (S n)) = k) ->
  forall (c : cfg) (alpha : Q) (x : list Q) (reps : nat) (q : Q) (n : Z) (k : nat),
  cN c = Some n ->
  nonanticipating (hist sqrtq c) ->
  (1 <= reps)%nat -> 0 <= q <= 1 ->
  ((first_crossing alpha 0 (hist sqrtq c x) = Some k /\ (k < length x)%nat)
   \/ (exists d0, d0 <> [] /\ (forall r, (r < reps)%nat -> draws r <> []) /\
                  first_crossing alpha 0 (firstn (length x) (hist sqrtq c (x ++ d0))) = Some k)) ->
  (forall r, (r < reps)%nat -> sim_one sqrtq draws c alpha (Z.to_nat n) true x r = k) /\
  ss_sim sqrtq draws quantile c alpha x reps true q = Ok k.
Proof. exact prefix_invariant. Qed.
Print Assumptions C16_prefix_invariant.
(* non-vacuity: every hypothesis is met by Kaplan-Markov (non-anticipating: km_nonanticipating), numpy's linear
   quantile (np_quantile_const), prefix (1, 1, 1/2) with history 1/2, 1/4, 1/4 crossing 3/10 at k = 2 < 3, and
   arbitrary draws; the conclusion is obtained FROM the theorem, not by evaluation *)
Example C16_prefix_invariant_ex : forall draws reps q, (1 <= reps)%nat -> 0 <= q <= 1 ->
  ss_sim sqrt_exec draws np_quantile (mkcfg (Some 6%Z) (1 # 2) 1 true (TKM 0)) (3 # 10) [1; 1; 1 # 2] reps true q = Ok 2%nat.
Proof.
  intros draws reps q Hr Hq.
  apply (C16_prefix_invariant sqrt_exec draws np_quantile np_quantile_const _ _ _ reps q 6%Z 2%nat);
    [ reflexivity | apply km_nonanticipating | exact Hr | exact Hq
    | left; split; [vm_compute; reflexivity | simpl; lia] ].
Qed.

(* The same for EVERY shipped test, estimator and bet, finite or infinite N, with no hypothesis left about the test:
   non-anticipation is discharged by property C05 (C05_tail = NNM_prefix.hist_tail_all). *)
Theorem C16_prefix_invariant_shipped :
  forall (sqrtq : Q -> Q) (draws : nat -> list Q) (quantile : Q -> list nat -> nat),
  (forall q k n, 0 <= q <= 1 -> quantile q (repeat k (S n)) = k) ->
  forall (c : cfg) (alpha : Q) (x : list Q) (reps : nat) (q : Q) (n : Z) (k : nat),
  cN c = Some n ->
  (1 <= reps)%nat -> 0 <= q <= 1 ->
  ((first_crossing alpha 0 (hist sqrtq c x) = Some k /\ (k < length x)%nat)
   \/ (exists d0, d0 <> [] /\ (forall r, (r < reps)%nat -> draws r <> []) /\
                  first_crossing alpha 0 (firstn (length x) (hist sqrtq c (x ++ d0))) = Some k)) ->
  (forall r, (r < reps)%nat -> sim_one sqrtq draws c alpha (Z.to_nat n) true x r = k) /\
  ss_sim sqrtq draws quantile c alpha x reps true q = Ok k.
Proof. exact prefix_invariant_shipped. Qed.
Print Assumptions C16_prefix_invariant_shipped.
(* non-vacuity, second (unclamped) case: ALPHA with shrink_trunc, N = 6, prefix (1, 1, 1): the third entry computed as
   an interior entry of (1, 1, 1, 0) is the first one <= 3/10; whatever is drawn after the prefix, the estimate is 3 *)
Example C16_prefix_invariant_shipped_ex : forall draws reps q,
  (1 <= reps)%nat -> 0 <= q <= 1 -> (forall r, (r < reps)%nat -> draws r <> []) ->
  ss_sim sqrt_exec draws np_quantile (mkcfg (Some 6%Z) (1 # 2) 1 true (TAlpha (EShrink (3 # 4) (1 # 2) 10 0 (1 # 8))))
         (3 # 10) [1; 1; 1] reps true q = Ok 3%nat.
Proof.
  intros draws reps q Hr Hq Hd.
  apply (C16_prefix_invariant_shipped sqrt_exec draws np_quantile np_quantile_const _ _ _ reps q 6%Z 3%nat);
    [ reflexivity | exact Hr | exact Hq
    | right; exists [0]; split; [discriminate | split; [exact Hd | vm_compute; reflexivity]] ].
Qed.

(* ---------------------------------------------------------------------------------------------------------------
   4. Comparison / ONEAudit: the constructed population is the error-free overstatement-assorter value everywhere,
      except a one-vote overstatement at every k1-th position and (overriding it) a two-vote overstatement, value 0, at
      every k2-th position, counted from position 0, with k = int(1/rate); a rate of None or 0 places nothing;
      rate_1 = None means (1 - margin)/2, rate_1 = 0 means none. *)
Theorem C16_overstatement_layout : forall (a : asn) (r1 r2 : option Q) (pop : list Q) (m : Q) (n : Z),
  a_type a <> Polling -> a_margin a = Some m -> cN (a_cfg a) = Some n ->
  asn_population a r1 r2 = Ok pop ->
  let N := Z.to_nat n in
  let big := make_overstatement (a_ub a) m 0 in
  let small := make_overstatement (a_ub a) m (1 # 2) in
  let r1' := Some (match r1 with Some r => r | None => (1 - m) / 2 end) in
  length pop = N /\
  forall i d, (i < N)%nat -> nth i pop d = if rate_hit r2 i then 0 else if rate_hit r1' i then small else big.
Proof. exact asn_population_layout. Qed.
Print Assumptions C16_overstatement_layout.
(* the step used by rate_hit is the integer part of 1/rate *)
Theorem C16_rate_step : forall q : Q, 0 < q ->
  inject_Z (rate_step q) * q <= 1 /\ 1 < (inject_Z (rate_step q) + 1) * q.
Proof. exact rate_step_floor. Qed.
Print Assumptions C16_rate_step.
(* non-vacuity: N = 8, margin 1/2, u = 1: clean value 2/3, one-vote value 1/3; rate_1 = 1/4, rate_2 = 1/8 *)
Example C16_overstatement_layout_ex :
  match asn_population (mkasn Comparison false (mkcfg (Some 8%Z) (1 # 2) (4 # 3) true (TKM 0)) (1 # 20) (Some (1 # 2)) 1 None)
                       (Some (1 # 4)) (Some (1 # 8)) with
  | Ok pop => all2 Qeq_bool pop [0; 2 # 3; 2 # 3; 2 # 3; 1 # 3; 2 # 3; 2 # 3; 2 # 3]
  | Err _ => false
  end = true.
Proof. vm_compute. reflexivity. Qed.
(* rate_1 exactly 0 places no one-vote overstatement (it is not replaced by the default (1 - margin)/2) *)
Example C16_overstatement_layout_ex0 :
  match asn_population (mkasn OneAudit false (mkcfg (Some 4%Z) (1 # 2) (4 # 3) true (TKM 0)) (1 # 20) (Some (1 # 2)) 1 None)
                       (Some 0) None with
  | Ok pop => all2 Qeq_bool pop [2 # 3; 2 # 3; 2 # 3; 2 # 3]
  | Err _ => false
  end = true.
Proof. vm_compute. reflexivity. Qed.

(* ---------------------------------------------------------------------------------------------------------------
   5. Interleaving.  For every n_small, n_med, n_big with at least one value requested, interleave_values returns
      (no exception) a list of length N holding exactly n_small, n_med, n_big values of each kind.  This covers the
      clause "n_big >= 1 or N <= 1" of the design and, since the repair of interleave_values, n_big = 0 as well.
      N = 0 is the raising branch (IndexError), modelled as an error value. *)
Theorem C16_interleave_counts : forall ns nm nb : nat,
  ((1 <= ns + nm + nb)%nat ->
   exists l, interleave_tags ns nm nb = Ok l /\ length l = (ns + nm + nb)%nat /\
             count_tag TSmall l = ns /\ count_tag TMed l = nm /\ count_tag TBig l = nb)
  /\ interleave_tags 0 0 0 = Err EIndex.
Proof. exact (fun ns nm nb => conj (interleave_counts ns nm nb) interleave_empty). Qed.
Print Assumptions C16_interleave_counts.
(* in terms of the returned numbers, when the three values differ *)
Theorem C16_interleave_values : forall (small med big : Q) (l : list tag),
  ~ small == med -> ~ small == big -> ~ med == big ->
  count_q small (map (tag_value small med big) l) = count_tag TSmall l /\
  count_q med (map (tag_value small med big) l) = count_tag TMed l /\
  count_q big (map (tag_value small med big) l) = count_tag TBig l.
Proof. exact count_q_tags. Qed.
Print Assumptions C16_interleave_values.
(* polling assertions: the constructed population is the interleaving of tally[loser] zeros, tally[winner] values u
   and the remaining cards at 1/2 *)
Theorem C16_polling_population : forall (a : asn) (r1 r2 : option Q) (pop : list Q) (n : Z),
  a_type a = Polling -> cN (a_cfg a) = Some n -> asn_population a r1 r2 = Ok pop ->
  let N := Z.to_nat n in
  exists n0 nb tags, a_tally a = Some (n0, nb) /\ (n0 + nb <= N)%nat /\
    interleave_tags n0 (N - n0 - nb) nb = Ok tags /\ pop = map (tag_value 0 (1 # 2) (a_ub a)) tags /\
    length tags = N /\ count_tag TSmall tags = n0 /\ count_tag TMed tags = (N - n0 - nb)%nat /\ count_tag TBig tags = nb.
Proof. exact asn_population_polling. Qed.
Print Assumptions C16_polling_population.
(* non-vacuity: (2, 1, 0) — the input on which the unrepaired code raised ZeroDivisionError *)
Example C16_interleave_ex : interleave_tags 2 1 0 = Ok [TSmall; TMed; TSmall].
Proof. vm_compute. reflexivity. Qed.
Example C16_interleave_ex2 : interleave_values 1 2 3 0 (1 # 2) 1 = Ok [0; 1; 1 # 2; 1; 1 # 2; 1].
Proof. vm_compute. reflexivity. Qed.

(* ---------------------------------------------------------------------------------------------------------------
   6. A contest's estimate is the largest of its assertions' estimates (and an exception in any assertion
      propagates: there is no Ok result unless every assertion returned one). *)
Theorem C16_contest_max :
  forall (sqrtq : Q -> Q) (draws : nat -> list Q) (quantile : Q -> list nat -> nat)
         (asns : list (asn * option (list Q))) (r1 r2 : option Q) (reps : option nat) (q : Q) (M : nat),
  contest_find sqrtq draws quantile asns r1 r2 reps q = Ok M <->
  exists ks, Forall2 (fun ad k => asn_find sqrtq draws quantile (fst ad) (snd ad) r1 r2 reps false q = Ok k) asns ks
             /\ M = list_max ks.
Proof. exact contest_max. Qed.
Print Assumptions C16_contest_max.
(* list_max ks is an upper bound attained in ks (stdlib list_max_le; attained: *)
Theorem C16_contest_max_attained : forall ks : list nat, ks <> [] -> In (list_max ks) ks.
Proof. exact list_max_In. Qed.
Print Assumptions C16_contest_max_attained.
(* non-vacuity: two Kaplan-Markov assertions of a comparison contest with margins 1/2 and 1/4, N = 20, no errors
   assumed (rate_1 = rate_2 = 0): (3/4)^k <= 1/5 first at k = 6, (7/8)^k <= 1/5 first at k = 13 *)
Example C16_contest_max_ex :
  let a m u := mkasn Comparison false (mkcfg (Some 20%Z) (1 # 2) u true (TKM 0)) (1 # 5) (Some m) 1 None in
  let run := contest_find sqrt_exec (fun _ => []) np_quantile in
  (run [(a (1 # 2) (4 # 3), None)] (Some 0) (Some 0) None (1 # 2),
   run [(a (1 # 4) (8 # 7), None)] (Some 0) (Some 0) None (1 # 2),
   run [(a (1 # 2) (4 # 3), None); (a (1 # 4) (8 # 7), None)] (Some 0) (Some 0) None (1 # 2))
  = (Ok 6%nat, Ok 13%nat, Ok 13%nat).
Proof. vm_compute. reflexivity. Qed.
