(* Run_Raire.v — entry points evaluated by the correspondence harness for shangrla/raire (C04, C15).
   A case carries the inputs AND the implementation's output; agree_* compares inside Coq (vm_compute). *)
From SV Require Export RaireCheck RaireAlgo.
Open Scope nat_scope.

(* profile given as ballot types with multiplicities *)
Definition expand (bt : list (ballot * nat)) : profile :=
  flat_map (fun bk => repeat (fst bk) (snd bk)) bt.

Inductive impl_out : Type :=
| Returned (l : list (assertion * nat * nat * Q))   (* assertion, votes_for_winner, votes_for_loser, difficulty *)
| Malformed.                                         (* raised, or returned something that is not a list of assertions *)

Record raire_case := mkrc {
  rc_cands : list cand;            (* contest.candidates, as 0..n-1 in the contest's order *)
  rc_types : list (ballot * nat);  (* the CVRs, grouped *)
  rc_tot : nat;                    (* contest.tot_ballots *)
  rc_winner : cand;                (* reported winner passed to compute_raire_assertions *)
  rc_bp : bool;                    (* asn_func: true = bp_estimate, false = cp_estimate *)
  rc_exact : bool;                 (* true: Fraction-valued asn_func was passed, difficulties compared exactly *)
  rc_out : impl_out
}.

Definition dfun_of (c : raire_case) : nat -> nat -> nat -> Q := if rc_bp c then bp_q else cp_q.
Definition cmp_q (exact : bool) (a b : Q) : bool := if exact then Qeq_bool a b else close_q a b.
Definition reps (l : list (assertion * nat * nat * Q)) : list reported := map fst l.

(* C04: a non-empty output passes the verified checker and reports the model's difficulty for its tallies;
   the output is empty exactly when `possible` is false *)
Definition agree_c04 (c : raire_case) : bool :=
  let p := expand (rc_types c) in
  match rc_out c with
  | Malformed => false
  | Returned [] => negb (possible (rc_cands c) p (rc_winner c))
  | Returned l =>
      check_output (rc_cands c) p (rc_winner c) (reps l)
      && forallb (fun r => match r with (_, tw, tl, d) => cmp_q (rc_exact c) (dfun_of c tw tl (rc_tot c)) d end) l
  end.
Definition show_c04 (c : raire_case) :=
  let p := expand (rc_types c) in
  (possible (rc_cands c) p (rc_winner c),
   match rc_out c with
   | Returned l => (map (rep_ok (rc_cands c) p) (reps l), suff_dec (rc_cands c) (rc_winner c) (map rep_assertion (reps l)),
                    map (fun r => match r with (_, tw, tl, d) => dfun_of c tw tl (rc_tot c) end) l)
   | Malformed => ([], false, [])
   end).

(* C15: the largest reported difficulty equals the verified optimum (Top <-> empty output) *)
Definition agree_c15 (c : raire_case) : bool :=
  let p := expand (rc_types c) in
  let o := opt (dfun_of c) (rc_cands c) p (rc_tot c) (rc_winner c) in
  match rc_out c with
  | Malformed => false
  | Returned [] => match o with Top => true | _ => false end
  | Returned l => match o with
                  | Val d => cmp_q (rc_exact c) d (max_q (map snd l))
                  | _ => false
                  end
  end.
Definition show_c15 (c : raire_case) :=
  opt (dfun_of c) (rc_cands c) (expand (rc_types c)) (rc_tot c) (rc_winner c).

(* tallies: (ballot types, assertion, sum of is_vote_for_winner over the CVRs, sum of is_vote_for_loser) *)
Definition agree_tally (c : list (ballot * nat) * assertion * nat * nat) : bool :=
  match c with
  | (bt, a, tw, tl) => Nat.eqb (tally_w (expand bt) a) tw && Nat.eqb (tally_l (expand bt) a) tl
  end.
Definition show_tally (c : list (ballot * nat) * assertion * nat * nat) :=
  match c with (bt, a, _, _) => (tally_w (expand bt) a, tally_l (expand bt) a) end.

(* per-ballot predicates: (ballots, assertion, is_vote_for_winner on each, is_vote_for_loser on each) *)
Definition agree_votes (c : list ballot * assertion * list bool * list bool) : bool :=
  match c with
  | (bs, a, ws, ls) => all2 Bool.eqb (map (vote_w a) bs) ws && all2 Bool.eqb (map (vote_l a) bs) ls
  end.
Definition show_votes (c : list ballot * assertion * list bool * list bool) :=
  match c with (bs, a, _, _) => (map (vote_w a) bs, map (vote_l a) bs) end.

(* difficulty functions: (winner tally, loser tally, total, bp_estimate, cp_estimate); the two doubles are given
   exactly as mantissa * 2^exponent *)
Definition fl (m e : Z) : Q := (inject_Z m * Qpower 2 e)%Q.
Definition agree_est (c : nat * nat * nat * Z * Z * Z * Z) : bool :=
  match c with
  | (w, l, tot, bm, be, cm, ce) => close_q (bp_q w l tot) (fl bm be) && close_q (cp_q w l tot) (fl cm ce)
  end.
Definition show_est (c : nat * nat * nat * Z * Z * Z * Z) :=
  match c with (w, l, tot, _, _, _, _) => (bp_q w l tot, cp_q w l tot) end.

(* the search itself: the model's assertion LIST (order included: nothing in the code's order comes from set
   iteration) against the implementation run with the Fraction-valued difficulty function; (case, order hint) *)
Definition run_model (c : raire_case) (hint : list cand) :=
  raire (default_fuel (rc_cands c)) (dfun_of c) (rc_cands c) (expand (rc_types c)) (rc_tot c) (rc_winner c) hint.
Definition agree_algo (ch : raire_case * list cand) : bool :=
  let (c, hint) := ch in
  match rc_out c, run_model c hint with
  | Returned l, Some m =>
      all2 (fun x y => match x, y with
                       | (a, tw, tl, d), (a', tw', tl', d') =>
                           same_as a a' && Nat.eqb tw tw' && Nat.eqb tl tl' && Qeq_bool d d'
                       end) m l
  | _, _ => false
  end.
Definition show_algo (ch : raire_case * list cand) := let (c, hint) := ch in run_model c hint.
