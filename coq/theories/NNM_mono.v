(* NNM_mono.v — C10 (last clause): the overall p-value of ALPHA / betting never increases when observations are
   appended, so an assertion once confirmed (p <= risk limit) stays confirmed when the sample is extended. *)
From SV Require Import NNM NNM_machines NNM_ranges NNM_spec NNM_hist NNM_wf NNM_prefix NNM_defs.
Open Scope Q_scope.

Lemma unit_xle_trans a b c : unit_x a -> unit_x b -> unit_x c -> xle a b = true -> xle b c = true -> xle a c = true.
Proof.
  intros [p [Ea _]] [q [Eb _]] [r [Ec _]]; subst; cbn. intros H1 H2.
  apply Qle_bool_iff in H1. apply Qle_bool_iff in H2. apply Qle_bool_iff. lra.
Qed.
Lemma unit_xle_refl a : unit_x a -> xle a a = true.
Proof. intros [p [Ea _]]; subst; cbn. apply Qle_bool_iff. lra. Qed.

Lemma Some_inj {A} (a b : A) : Some a = Some b -> a = b.
Proof. intro H; now inversion H. Qed.

Section Mono.
Variable terms_fn : list Q -> list Xq.
Hypothesis terms_len : forall xs, length (terms_fn xs) = length xs.
Hypothesis terms_firstn : forall xs k, firstn k (terms_fn xs) = terms_fn (firstn k xs).
Variables (N : option Z) (t u : Q).
Hypothesis Hu : 0 < u.
(* the term after a total above N t is +inf *)
Variable ok : list Q -> Prop.
Hypothesis terms_excess : forall xs y ys, ok (xs ++ y :: ys) -> stot_exceeds N t xs = true ->
  nth_error (terms_fn (xs ++ y :: ys)) (length xs) = Some PInf.
(* well-formedness (C11) of the test on the samples considered *)
Hypothesis wf : forall xs, ok xs -> wellformed (finish_terms N t xs (terms_fn xs)) (length xs).

Theorem pvalue_antitone xs ys :
  ok xs -> ok (xs ++ ys) -> xs <> [] ->
  xle (fst (finish_terms N t (xs ++ ys) (terms_fn (xs ++ ys)))) (fst (finish_terms N t xs (terms_fn xs))) = true.
Proof.
  intros Hx Hxy Hne.
  destruct ys as [|y ys]; [rewrite app_nil_r; apply unit_xle_refl; apply (wf xs Hx)|].
  destruct (wf xs Hx) as [L1 [U1 [P1 [In1 _]]]].
  destruct (wf _ Hxy) as [L2 [U2 [P2 [_ Le2]]]].
  set (r1 := finish_terms N t xs (terms_fn xs)) in *.
  set (r2 := finish_terms N t (xs ++ y :: ys) (terms_fn (xs ++ y :: ys))) in *.
  (* fst r1 is entry i of the short history *)
  apply In_nth_error in In1. destruct In1 as [i Hi].
  assert (Hil : (i < length xs)%nat). { rewrite <- L1. apply nth_error_Some. congruence. }
  rewrite Forall_forall in Le2, U2.
  set (k := length xs) in *.
  assert (Hk : (1 <= k <= length (xs ++ y :: ys))%nat) by (rewrite app_length; simpl; destruct xs; [congruence|simpl in *; lia]).
  assert (Efx : firstn k (xs ++ y :: ys) = xs) by (unfold k; rewrite firstn_app, firstn_all, Nat.sub_diag; simpl; apply app_nil_r).
  pose proof (hist_truncate_strong terms_fn terms_len terms_firstn N t (xs ++ y :: ys) k Hk) as [Hpre Hlast].
  rewrite Efx in Hpre, Hlast. fold (hist_of terms_fn N t xs) in Hi. unfold hist_of in Hpre, Hlast. fold r1 r2 in Hpre, Hlast.
  destruct (Nat.eq_dec i (k - 1)) as [Ei|Ni].
  - (* the last entry of the short history: unchanged, or forced to 0 by the excess clamp *)
    subst i. unfold hist_of in Hi. fold r1 in Hi. destruct Hlast as [Hsame|[_ [Hst Hzero]]].
    + rewrite Hsame in Hi. apply Le2. eapply nth_error_In; eauto.
    + rewrite Hzero in Hi. apply Some_inj in Hi.
      (* the total of xs exceeds N t, so the next term of the long history is +inf and its p-value 0 *)
      pose proof (terms_excess xs y ys Hxy Hst) as Hinf. fold k in Hinf.
      assert (Hent : nth_error (snd r2) k = Some (Fin 0)).
      { unfold r2, finish_terms. cbn [snd]. rewrite nth_error_map.
        destruct (stot_exceeds N t (xs ++ y :: ys)).
        - destruct (Nat.eq_dec k (length (terms_fn (xs ++ y :: ys)) - 1)) as [E|NE].
          + rewrite E, nth_error_set_last_last; [reflexivity|]. intro E0. rewrite E0 in Hinf. destruct k; discriminate.
          + assert (Hfn : firstn (S k) (set_last (terms_fn (xs ++ y :: ys)) PInf) = firstn (S k) (terms_fn (xs ++ y :: ys))).
            { apply firstn_set_last. rewrite terms_len, app_length. simpl. rewrite terms_len, app_length in NE. simpl in NE. fold k in NE |- *. lia. }
            rewrite <- (nth_error_firstn_lt _ k (S k)) by lia. rewrite Hfn, nth_error_firstn_lt by lia. rewrite Hinf. reflexivity.
        - rewrite Hinf. reflexivity. }
      rewrite <- Hi. apply Le2. eapply nth_error_In; eauto.
  - (* an earlier entry: identical in the long history *)
    assert (Hi2 : nth_error (snd r2) i = Some (fst r1)).
    { rewrite <- (nth_error_firstn_lt (snd r2) i (k - 1)) by lia. rewrite <- Hpre.
      rewrite nth_error_firstn_lt by lia. exact Hi. }
    apply Le2. eapply nth_error_In; eauto.
Qed.
End Mono.

Lemma Forall2_nth {A B} (P : A -> B -> Prop) l1 l2 i a :
  Forall2 P l1 l2 -> nth_error l1 i = Some a -> exists b, nth_error l2 i = Some b /\ P a b.
Proof.
  intro H. revert i. induction H as [|x y l1 l2 Hxy _ IH]; intros i Hi; destruct i; simpl in *; try discriminate.
  - injection Hi as Hi; subst. eauto.
  - now apply IH.
Qed.

Section MonoInst.
Variable sqrtq : Q -> Q.
Hypothesis sqrt_nonneg : forall x, 0 <= sqrtq x.

Lemma excess_generic facX N t u es xs y ys :
  0 < u -> length es = length (xs ++ y :: ys) ->
  match N with Some n => (Z.of_nat (length (xs ++ y :: ys)) <= n)%Z | None => True end ->
  stot_exceeds N t xs = true ->
  nth_error (model_terms facX N t u (0, 1%Z) (Fin 1) (xs ++ y :: ys) es) (length xs) = Some PInf.
Proof.
  intros Hu HL HN Hst.
  pose proof (model_terms_boundary facX N t u (0, 1%Z) (Fin 1) (xs ++ y :: ys) es Hu HL) as HB.
  assert (Hlt : (length xs < length (xs ++ y :: ys))%nat) by (rewrite app_length; simpl; lia).
  pose proof (mu_list_nth N t (xs ++ y :: ys) (length xs) Hlt) as Hm.
  rewrite firstn_app, firstn_all, Nat.sub_diag in Hm. cbn [firstn] in Hm. rewrite app_nil_r in Hm.
  change (mu_list N t (xs ++ y :: ys)) with (mscan (mu_out N t) sj_step (0, 1%Z) (xs ++ y :: ys)) in Hm.
  destruct (Forall2_nth _ _ _ _ _ HB Hm) as [tm [Htm [Hneg _]]].
  rewrite Htm. f_equal. apply Hneg.
  unfold stot_exceeds in Hst. destruct N as [n|]; [|discriminate]. apply Qlt_bool_iff in Hst.
  assert (Hjn : (1 + Z.of_nat (length xs) <= n)%Z) by (rewrite app_length in HN; simpl in HN; lia).
  destruct (mu_at_some n t (qsum xs) (1 + Z.of_nat (length xs)) Hjn) as [Hdn Hmu].
  set (m := mu_at (Some n) t (qsum xs) (1 + Z.of_nat (length xs))) in *. nra.
Qed.

Theorem alpha_pvalue_antitone e N t u xs ys :
  0 < u -> 0 < t < u -> sample_ok N u xs -> sample_ok N u (xs ++ ys) ->
  xle (fst (alpha_mart sqrtq e N t u (xs ++ ys))) (fst (alpha_mart sqrtq e N t u xs)) = true.
Proof.
  intros Hu Ht Hx Hxy.
  apply (pvalue_antitone (alpha_terms sqrtq e N t u) (alpha_terms_len sqrtq e N t u) (alpha_terms_firstn sqrtq e N t u)
           N t (sample_ok N u)); auto.
  - intros zs y zs' [_ [_ HN]] Hst. unfold alpha_terms. apply excess_generic; auto. apply alpha_etas_length.
  - intros zs Hz. unfold alpha_terms. rewrite <- alpha_mart_unfold. now apply alpha_mart_wellformed.
  - destruct Hx; auto.
Qed.

Theorem betting_pvalue_antitone b N t u xs ys :
  0 < u -> 0 < t < u -> bet_ok b u -> sample_ok N u xs -> sample_ok N u (xs ++ ys) ->
  xle (fst (betting_mart sqrtq b N t u (xs ++ ys))) (fst (betting_mart sqrtq b N t u xs)) = true.
Proof.
  intros Hu Ht Hb Hx Hxy.
  apply (pvalue_antitone (betting_terms sqrtq b N t u) (betting_terms_len sqrtq b N t u) (betting_terms_firstn sqrtq b N t u)
           N t (sample_ok N u)); auto.
  - intros zs y zs' [_ [_ HN]] Hst. unfold betting_terms. apply excess_generic; auto. unfold run_bet. apply run_machine_length.
  - intros zs Hz. unfold betting_terms. rewrite <- betting_mart_unfold. now apply betting_mart_wellformed.
  - destruct Hx; auto.
Qed.

(* an assertion confirmed at risk limit alpha stays confirmed when the sample is extended *)
Corollary alpha_confirmed_sticky e N t u xs ys alpha :
  0 < u -> 0 < t < u -> sample_ok N u xs -> sample_ok N u (xs ++ ys) ->
  xle (fst (alpha_mart sqrtq e N t u xs)) (Fin alpha) = true ->
  xle (fst (alpha_mart sqrtq e N t u (xs ++ ys))) (Fin alpha) = true.
Proof.
  intros Hu Ht Hx Hxy Hc. pose proof (alpha_pvalue_antitone e N t u xs ys Hu Ht Hx Hxy) as Hle.
  destruct (alpha_mart_wellformed sqrtq e N t u xs Hu Ht Hx) as [_ [_ [[p [Ep _]] _]]].
  destruct (alpha_mart_wellformed sqrtq e N t u (xs ++ ys) Hu Ht Hxy) as [_ [_ [[q [Eq _]] _]]].
  rewrite Ep in *. rewrite Eq in *. cbn in *. apply Qle_bool_iff in Hle. apply Qle_bool_iff in Hc. apply Qle_bool_iff. lra.
Qed.
End MonoInst.
