(* NNM_risk_iid.v — C01 for N = infinity (independent draws), PARTIAL: laws with finite support and rational masses.
   For every such law on [0,u] with mean <= t, every horizon n and every alpha in (0,1): the total mass of the
   length-n sequences on which the test reports, at some sample size, an overall p-value or history entry <= alpha
   is at most alpha.  Missing for the full property: arbitrary (e.g. continuous) laws on [0,u] — each one-step factor
   is affine in the observation, so only the mean of the law is used, but the limit argument is not formalised. *)
From SV Require Import NNM NNM_machines NNM_ranges NNM_spec NNM_hist NNM_wf NNM_prefix NNM_defs NNM_kaplan Prob Prob_iid NNM_risk.
Open Scope Q_scope.

Definition null_law (u t : Q) (law : list (Q * Q)) : Prop :=
  (forall vw, In vw law -> 0 <= snd vw /\ 0 <= fst vw <= u)
  /\ lsum (map snd law) == 1
  /\ lsum (map (fun vw => snd vw * fst vw) law) <= t.

Section IIDRisk.
Variables (facq : Q -> Q -> Q -> Q) (slope : Q -> Q -> Q) (eff : Q -> Q -> Q).
Variable em : machine Q.
Variables (t u : Q).
Hypothesis Hu : 0 < u.
Hypothesis Ht : 0 < t < u.

Record istate := mki { i_T : Q; i_e : m_St em }.
Definition i_par (g : istate) : Q := eff (m_out em (i_e g)) t.
Definition istep (g : istate) (x : Q) : istate :=
  mki (Qred (i_T g * facq x (i_par g) t)) (m_step em (i_e g) x).
Definition iinit : istate := mki 1 (m_init em).
Definition ifold (p : list Q) : istate := fold_left istep p iinit.
Definition Mi (p : list Q) : Q := i_T (ifold p).

Hypothesis fac_affine : forall x e, facq x e t == 1 + (x - t) * slope e t.
Hypothesis fac_nonneg : forall g x, 0 <= x <= u -> 0 <= facq x (i_par g) t.
Hypothesis slope_nonneg : forall g, 0 <= slope (i_par g) t.

Lemma Mi_snoc p x : Mi (p ++ [x]) = Qred (Mi p * facq x (i_par (ifold p)) t).
Proof. unfold Mi, ifold. rewrite fold_left_app. reflexivity. Qed.

Lemma iT_fold_nonneg p : forall g, 0 <= i_T g -> Forall (fun x => 0 <= x <= u) p -> 0 <= i_T (fold_left istep p g).
Proof.
  induction p as [|x r IH]; intros g Hg Hp; [exact Hg|]. inversion Hp as [|x0 l0 Hx Hr]; subst.
  cbn [fold_left]. apply IH; auto. unfold istep; cbn [i_T]. rewrite Qred_correct.
  pose proof (fac_nonneg g x Hx). nra.
Qed.
Lemma Mi_nonneg p : Forall (fun x => 0 <= x <= u) p -> 0 <= Mi p.
Proof. intro H. apply iT_fold_nonneg; auto. cbn. lra. Qed.

Variable law : list (Q * Q).
Hypothesis Hlaw : null_law u t law.

Lemma Mi_super p : Forall (fun x => 0 <= x <= u) p ->
  lsum (map (fun vw => snd vw * Mi (p ++ [fst vw])) law) <= Mi p.
Proof.
  intro Hp. destruct Hlaw as [Hw [Hs Hm]]. pose proof (Mi_nonneg p Hp) as HM.
  set (g := ifold p). pose proof (slope_nonneg g) as Hc. set (c := slope (i_par g) t) in *.
  assert (E : lsum (map (fun vw => snd vw * Mi (p ++ [fst vw])) law)
              == lsum (map (fun vw => Mi p * snd vw + (Mi p * c) * (snd vw * fst vw - t * snd vw)) law)).
  { apply lsum_eq_pointwise. intros vw _. cbv beta. rewrite Mi_snoc, Qred_correct. fold g. rewrite fac_affine. fold c. ring. }
  rewrite E, (lsum_plus (fun vw => Mi p * snd vw) (fun vw => Mi p * c * (snd vw * fst vw - t * snd vw))).
  rewrite (lsum_scale_l snd (Mi p)), (lsum_scale_l (fun vw => snd vw * fst vw - t * snd vw) (Mi p * c)).
  assert (E2 : lsum (map (fun vw => snd vw * fst vw - t * snd vw) law)
               == lsum (map (fun vw => snd vw * fst vw) law) - t * lsum (map snd law)).
  { clear. induction law as [|a l IH]; cbn [map lsum fold_right]; [ring|].
    fold (lsum (map (fun vw => snd vw * fst vw - t * snd vw) l)). fold (lsum (map (fun vw => snd vw * fst vw) l)).
    fold (lsum (map snd l)). rewrite IH. ring. }
  rewrite E2, Hs. assert (0 <= Mi p * c) by nra. nra.
Qed.

Theorem Mi_ville alpha : 0 < alpha -> forall n,
  pcross_iid Mi (1 / alpha) law n [] <= alpha.
Proof.
  intros Ha n. destruct Hlaw as [Hw [Hs Hm]].
  pose proof (ville_iid Mi (1 / alpha) law (fun vw H => proj1 (Hw vw H)) (fun p => Forall (fun x => 0 <= x <= u) p)) as HV.
  assert (Hstep : forall p vw, Forall (fun x => 0 <= x <= u) p -> In vw law -> Forall (fun x => 0 <= x <= u) (p ++ [fst vw])).
  { intros p vw Hp Hin. apply Forall_app. split; auto. constructor; [apply (Hw vw Hin)|constructor]. }
  specialize (HV Hstep Mi_nonneg Mi_super n [] (Forall_nil _)).
  assert (EM : Mi [] == 1) by reflexivity. rewrite EM in HV.
  assert (E : pcross_iid Mi (1 / alpha) law n [] * (1 / alpha) == pcross_iid Mi (1 / alpha) law n [] / alpha) by (field; lra).
  rewrite E in HV.
  assert (E2 : pcross_iid Mi (1 / alpha) law n [] == pcross_iid Mi (1 / alpha) law n [] / alpha * alpha) by (field; lra).
  rewrite E2. nra.
Qed.

(* ---- an abstract test linked to Mi: any reported value <= alpha forces Mi >= 1/alpha at some prefix ---- *)
Variable test : list Q -> Xq * list Xq.
Hypothesis reject_link : forall alpha xs h, 0 < alpha -> alpha < 1 ->
  xs <> [] -> Forall (fun x => 0 <= x <= u) xs ->
  In h (fst (test xs) :: snd (test xs)) -> xle h (Fin alpha) = true ->
  exists j, (j < length xs)%nat /\ 1 / alpha <= Mi (firstn (S j) xs).

Lemma values_range n s : In s (seqs law n) -> Forall (fun x => 0 <= x <= u) (values s) /\ length s = n.
Proof.
  destruct Hlaw as [Hw _]. revert s; induction n as [|n IH]; intros s Hs.
  - cbn in Hs. destruct Hs as [E|[]]. subst. split; [constructor|reflexivity].
  - cbn [seqs] in Hs. apply in_flat_map in Hs. destruct Hs as [vw [Hvw Hs]].
    apply in_map_iff in Hs. destruct Hs as [s' [E Hs']]. subst s. destruct (IH s' Hs') as [H1 H2].
    split; [|simpl; lia]. cbn [values map]. constructor; auto. apply (Hw vw Hvw).
Qed.

Theorem iid_risk_limit alpha n :
  0 < alpha -> alpha < 1 ->
  lsum (map (fun s => weight s * ind (rejectsb test alpha (values s))) (seqs law n)) <= alpha.
Proof.
  intros Ha Ha1. destruct Hlaw as [Hw [Hs Hm]].
  eapply Qle_trans; [|apply (Mi_ville alpha Ha n)].
  rewrite (pcross_iid_sum Mi (1 / alpha) law Hs n []).
  apply lsum_le_pointwise. intros s Hin.
  assert (Hwt : 0 <= weight s).
  { destruct (values_range n s Hin) as [_ _]. clear -Hin Hw. revert s Hin. induction n as [|n IH]; intros s Hs.
    - cbn in Hs. destruct Hs as [E|[]]. subst. cbn. lra.
    - cbn [seqs] in Hs. apply in_flat_map in Hs. destruct Hs as [vw [Hvw Hs]].
      apply in_map_iff in Hs. destruct Hs as [s' [E Hs']]. subst s. cbn [weight fold_right]. fold (weight s').
      pose proof (IH s' Hs'). pose proof (proj1 (Hw vw Hvw)). nra. }
  destruct (rejectsb test alpha (values s)) eqn:Er; [|unfold ind at 1; destruct (crosses Mi (1 / alpha) [] (values s)); unfold ind; lra].
  assert (Hc : crosses Mi (1 / alpha) [] (values s) = true).
  { unfold rejectsb in Er. apply existsb_exists in Er. destruct Er as [k [Hk Hex]]. apply in_seq in Hk. cbv zeta in Hex.
    apply existsb_exists in Hex. destruct Hex as [h [Hh Hle]].
    destruct (values_range n s Hin) as [Hr _].
    set (xs := firstn k (values s)) in *.
    assert (Hxne : xs <> []). { intro E. pose proof (f_equal (@length Q) E) as HL. unfold xs in HL. rewrite firstn_length in HL. simpl in HL. lia. }
    assert (Hxr : Forall (fun x => 0 <= x <= u) xs).
    { apply Forall_forall. intros x Hx. rewrite Forall_forall in Hr. apply Hr. eapply In_firstn_In; eauto. }
    destruct (reject_link alpha xs h Ha Ha1 Hxne Hxr Hh Hle) as [j [Hj Hq]].
    assert (Hxl : length xs = k) by (unfold xs; rewrite firstn_length; lia).
    apply (crosses_firstn Mi (1 / alpha) (values s) [] (S j)). rewrite app_nil_l. apply Qle_bool_iff.
    assert (E : firstn (S j) xs = firstn (S j) (values s)) by (unfold xs; rewrite firstn_firstn; f_equal; lia).
    rewrite <- E. exact Hq. }
  rewrite Hc. lra.
Qed.
(* ---- law-free facts used for arbitrary laws (NNM_risk_real.v) ---- *)
Lemma Mi_step_affine p x : Mi (p ++ [x]) == Mi p + (Mi p * slope (i_par (ifold p)) t) * (x - t).
Proof. rewrite Mi_snoc, Qred_correct. rewrite fac_affine. ring. Qed.
Lemma Mi_slope_nonneg p : Forall (fun x => 0 <= x <= u) p -> 0 <= Mi p * slope (i_par (ifold p)) t.
Proof. intro Hp. pose proof (Mi_nonneg p Hp). pose proof (slope_nonneg (ifold p)). nra. Qed.

Theorem reject_crosses_iid alpha s :
  0 < alpha -> alpha < 1 -> Forall (fun x => 0 <= x <= u) s ->
  rejectsb test alpha s = true -> crosses Mi (1 / alpha) [] s = true.
Proof.
  intros Ha Ha1 Hr Er.
  unfold rejectsb in Er. apply existsb_exists in Er. destruct Er as [k [Hk Hex]]. apply in_seq in Hk. cbv zeta in Hex.
  apply existsb_exists in Hex. destruct Hex as [h [Hh Hle]].
  set (xs := firstn k s) in *.
  assert (Hxne : xs <> []). { intro E. pose proof (f_equal (@length Q) E) as HL. unfold xs in HL. rewrite firstn_length in HL. simpl in HL. lia. }
  assert (Hxr : Forall (fun x => 0 <= x <= u) xs).
  { apply Forall_forall. intros x Hx. rewrite Forall_forall in Hr. apply Hr. eapply In_firstn_In; eauto. }
  destruct (reject_link alpha xs h Ha Ha1 Hxne Hxr Hh Hle) as [j [Hj Hq]].
  assert (Hxl : length xs = k) by (unfold xs; rewrite firstn_length; lia).
  apply (crosses_firstn Mi (1 / alpha) s [] (S j)). rewrite app_nil_l. apply Qle_bool_iff.
  assert (E : firstn (S j) xs = firstn (S j) s) by (unfold xs; rewrite firstn_firstn; f_equal; lia).
  rewrite <- E. exact Hq.
Qed.
End IIDRisk.
