(* RaireAlgo_complete.v — the other direction of C04's emptiness clause for the model of the search:
   when RaireAlgo.raire returns the empty list, no set of true assertions is sufficient (possible = false).
   Part 1: find_best_audit is complete along the suffixes of an order. *)
From SV Require Import RaireCheck RaireCheck_proofs RaireAlgo RaireAlgo_proofs RaireAlgo_inv.
Open Scope nat_scope.

(* ------------------------------------------------------------------ the NEB matrix *)
Section Table.
  Variable f : cand -> cand -> option asr.
  Definition row (ds : list cand) (c : cand) := map (fun d => (c, d, f c d)) ds.

  Lemma lookup_row_other ds c' rest c d : c <> c' -> lookup (row ds c' ++ rest) c d = lookup rest c d.
  Proof.
    intro Hne. induction ds as [|x r IH]; simpl; [reflexivity|].
    apply Nat.eqb_neq in Hne. rewrite Hne. simpl. exact IH.
  Qed.
  Lemma lookup_row_in ds rest c d : In d ds -> lookup (row ds c ++ rest) c d = f c d.
  Proof.
    induction ds as [|x r IH]; simpl; [intros []|]. intro Hin. rewrite Nat.eqb_refl. simpl.
    destruct (Nat.eqb d x) eqn:E.
    - apply Nat.eqb_eq in E. subst. reflexivity.
    - apply IH. destruct Hin as [H|H]; [|exact H]. subst. rewrite Nat.eqb_refl in E. discriminate.
  Qed.
  Lemma lookup_table cs ds c d : In c cs -> In d ds -> lookup (flat_map (row ds) cs) c d = f c d.
  Proof.
    induction cs as [|x r IH]; simpl; [intros []|]. intros Hc Hd.
    destruct (Nat.eq_dec c x) as [He|Hne].
    - subst x. apply lookup_row_in. exact Hd.
    - rewrite lookup_row_other by exact Hne. apply IH; [|exact Hd]. destruct Hc as [H|H]; [congruence | exact H].
  Qed.
End Table.

Lemma lookup_neb_table dfun cands p tot c d : In c cands -> In d cands ->
  lookup (neb_table dfun cands p tot) c d = (if Nat.eqb c d then None else mk_neb dfun p tot c d).
Proof.
  intros Hc Hd. unfold neb_table.
  apply (lookup_table (fun c d => if Nat.eqb c d then None else mk_neb dfun p tot c d) cands cands c d Hc Hd).
Qed.

(* ------------------------------------------------------------------ find_best_audit finds an assertion when there is one *)
Lemma better_some_l best x : best <> None -> better best x <> None.
Proof.
  unfold better. destruct x as [nb|]; [|auto]. destruct best as [b|]; [|congruence].
  intros _. destruct (Qlt_bool (a_d nb) (a_d b)); discriminate.
Qed.
Lemma better_some_r best x : x <> None -> better best x <> None.
Proof.
  unfold better. destruct x as [nb|]; [|congruence]. intros _. destruct best as [b|]; [|discriminate].
  destruct (Qlt_bool (a_d nb) (a_d b)); discriminate.
Qed.
Lemma fold_better_keep {B} (g : B -> option asr) l : forall b0, b0 <> None ->
  fold_left (fun best y => better best (g y)) l b0 <> None.
Proof. induction l as [|y r IH]; simpl; intros b0 H; [exact H|]. apply IH. apply better_some_l. exact H. Qed.
Lemma fold_better_find {B} (g : B -> option asr) l y : In y l -> g y <> None -> forall b0,
  fold_left (fun best y => better best (g y)) l b0 <> None.
Proof.
  induction l as [|z r IH]; simpl; [intros []|]. intros [Hy|Hy] Hg b0.
  - subst z. apply fold_better_keep. apply better_some_r. exact Hg.
  - apply IH; assumption.
Qed.

Section Fba.
  Variable dfun : nat -> nat -> nat -> Q.
  Variable cands : list cand.
  Variable p : profile.
  Variable tot : nat.
  Variable nebs : list (cand * cand * option asr).

  Let fba := find_best_audit dfun cands p tot nebs.

  Lemma fba_unfold first later :
    fba (first :: later) =
    let elim := remf cands (first :: later) in
    let firsts := map (first_standing elim) p in
    let tf := count_for firsts first in
    fold_left (fun best lc =>
                 let tl := count_for firsts lc in
                 if Nat.ltb tl tf then
                   let est := dfun tf tl tot in
                   let nen := mkasr (NEN first lc elim) tf tl est [first :: later] in
                   match best with
                   | None => Some nen
                   | Some b => if Qlt_bool est (a_d b) then Some nen else best
                   end
                 else best) later
      (fold_left (fun best c => fold_left (fun best ct => better best (lookup nebs c ct)) (first :: later) best) elim
         (fold_left (fun best lc => better best (lookup nebs first lc)) later None)).
  Proof. reflexivity. Qed.

  Lemma step3_keep (tf : nat) (tlf : cand -> nat) (mk : cand -> nat -> asr) l : forall b0, b0 <> None ->
    fold_left (fun best lc => let tl := tlf lc in
                 if Nat.ltb tl tf then
                   match best with
                   | None => Some (mk lc tl)
                   | Some b => if Qlt_bool (dfun tf tl tot) (a_d b) then Some (mk lc tl) else best
                   end
                 else best) l b0 <> None.
  Proof.
    induction l as [|y r IH]; simpl; intros b0 H; [exact H|]. apply IH.
    destruct (Nat.ltb (tlf y) tf); [|exact H]. destruct b0 as [b|]; [|congruence].
    destruct (Qlt_bool (dfun tf (tlf y) tot) (a_d b)); discriminate.
  Qed.
  Lemma step3_find (tf : nat) (tlf : cand -> nat) (mk : cand -> nat -> asr) l y : In y l -> Nat.ltb (tlf y) tf = true ->
    forall b0,
    fold_left (fun best lc => let tl := tlf lc in
                 if Nat.ltb tl tf then
                   match best with
                   | None => Some (mk lc tl)
                   | Some b => if Qlt_bool (dfun tf tl tot) (a_d b) then Some (mk lc tl) else best
                   end
                 else best) l b0 <> None.
  Proof.
    induction l as [|z r IH]; simpl; [intros []|]. intros [Hy|Hy] Hlt b0.
    - subst z. apply step3_keep. rewrite Hlt. destruct b0 as [b|]; [|discriminate].
      destruct (Qlt_bool (dfun tf (tlf y) tot) (a_d b)); discriminate.
    - apply IH; assumption.
  Qed.

  Lemma fba_neb first later lc : In lc later -> lookup nebs first lc <> None -> fba (first :: later) <> None.
  Proof.
    intros Hin Hl. rewrite fba_unfold. cbv zeta.
    apply (step3_keep _ (fun lc => count_for (map (first_standing (remf cands (first :: later))) p) lc)
                      (fun lc tl => mkasr (NEN first lc (remf cands (first :: later)))
                                          (count_for (map (first_standing (remf cands (first :: later))) p) first) tl
                                          (dfun (count_for (map (first_standing (remf cands (first :: later))) p) first) tl tot)
                                          [first :: later])).
    apply (fold_left_inv (fun b : option asr => b <> None)).
    - apply (fold_better_find (fun lc => lookup nebs first lc) later lc Hin Hl).
    - intros best c Hb _. apply fold_better_keep. exact Hb.
  Qed.
  Lemma fba_nen first later lc : In lc later ->
    Nat.ltb (count_for (map (first_standing (remf cands (first :: later))) p) lc)
            (count_for (map (first_standing (remf cands (first :: later))) p) first) = true ->
    fba (first :: later) <> None.
  Proof.
    intros Hin Hlt. rewrite fba_unfold. cbv zeta.
    apply (step3_find _ (fun lc => count_for (map (first_standing (remf cands (first :: later))) p) lc)
                      (fun lc tl => mkasr (NEN first lc (remf cands (first :: later)))
                                          (count_for (map (first_standing (remf cands (first :: later))) p) first) tl
                                          (dfun (count_for (map (first_standing (remf cands (first :: later))) p) first) tl tot)
                                          [first :: later]) later lc Hin Hlt).
  Qed.
End Fba.

Section Complete1.
  Variable dfun : nat -> nat -> nat -> Q.
  Variable cands : list cand.
  Variable p : profile.
  Variable tot : nat.
  Hypothesis Hnd : NoDup cands.
  Let nebs := neb_table dfun cands p tot.
  Let fba := find_best_audit dfun cands p tot nebs.

  (* a true assertion that contradicts a complete order is found at the suffix of the order that starts at its winner *)
  Lemma fba_complete a pi :
    Permutation cands pi -> holds cands p a = true -> contradicts a pi = true ->
    exists t, ends_with t pi /\ 2 <= length t /\ fba t <> None.
  Proof.
    intros Hp Hh Hc.
    assert (Hback : forall x, In x pi -> In x cands)
      by (intros x Hx; eapply Permutation_in; [apply Permutation_sym; exact Hp | exact Hx]).
    assert (Hndp : NoDup pi) by (eapply Permutation_NoDup; eauto).
    unfold holds in Hh. apply andb_true_iff in Hh. destruct Hh as [Hwf Hlt].
    destruct a as [w l | w l e]; simpl in Hc.
    - destruct (before_In _ _ _ Hc) as [Hw [Hl Hne]].
      destruct (before_split _ _ _ Hc) as [dn [rest [Hpi [Hlr _]]]].
      exists (w :: rest). split; [exists dn; exact Hpi|]. split.
      { destruct rest; [destruct Hlr | simpl; lia]. }
      apply (fba_neb dfun cands p tot nebs w rest l Hlr).
      unfold nebs. rewrite lookup_neb_table by (apply Hback; assumption).
      apply Nat.eqb_neq in Hne. rewrite Hne. unfold mk_neb.
      change (tally_l p (NEB w l)) with (count (neb_vote_l w l) p) in Hlt.
      change (tally_w p (NEB w l)) with (count (neb_vote_w w) p) in Hlt.
      rewrite Hlt. discriminate.
    - destruct (prefix_before w pi) as [pre|] eqn:Ep; [|discriminate].
      destruct (prefix_before_split _ _ _ Ep) as [rest [Hpi Hwpre]]. rewrite set_eq_spec in Hc.
      simpl in Hwf. apply andb_true_iff in Hwf. destruct Hwf as [Hwf Hwl]. apply andb_true_iff in Hwf.
      destruct Hwf as [Hlc Hle]. apply mem_In in Hlc. apply negb_true_iff in Hle. apply mem_false in Hle.
      apply negb_true_iff in Hwl. apply Nat.eqb_neq in Hwl.
      assert (Hlrest : In l rest).
      { assert (Hin : In l pi) by (eapply Permutation_in; eauto). rewrite Hpi in Hin.
        apply in_app_or in Hin. destruct Hin as [Hin|[Hin|Hin]]; [exfalso; apply Hle; apply Hc; exact Hin | congruence | exact Hin]. }
      exists (w :: rest). split; [exists pre; exact Hpi|]. split.
      { destruct rest; [destruct Hlrest | simpl; lia]. }
      apply (fba_nen dfun cands p tot nebs w rest l Hlrest).
      assert (Hm : forall x, mem x (remf cands (w :: rest)) = mem x e).
      { apply mem_ext. intro x. rewrite <- Hc. unfold remf. rewrite filter_In. split.
        - intros [Hx Hn]. apply negb_true_iff in Hn. apply mem_false in Hn.
          assert (Hin : In x pi) by (eapply Permutation_in; eauto). rewrite Hpi in Hin.
          apply in_app_or in Hin. destruct Hin as [Hin|Hin]; [exact Hin | contradiction].
        - intro Hx. split; [apply Hback; rewrite Hpi; apply in_or_app; left; exact Hx|].
          apply negb_true_iff. apply mem_false. intro Hin. rewrite Hpi in Hndp. eapply NoDup_app_disj; eauto. }
      rewrite !count_for_spec.
      rewrite (count_ext (vote_for_cand l (remf cands (w :: rest))) (vote_for_cand l e)) by (intro b; apply vfc_ext; exact Hm).
      rewrite (count_ext (vote_for_cand w (remf cands (w :: rest))) (vote_for_cand w e)) by (intro b; apply vfc_ext; exact Hm).
      exact Hlt.
  Qed.
End Complete1.

(* ------------------------------------------------------------------ order on estimates *)
Lemma ole_refl a : ole a a = true.
Proof. destruct a as [x|]; simpl; [apply Qle_bool_iff; lra | reflexivity]. Qed.
Lemma ole_trans a b c : ole a b = true -> ole b c = true -> ole a c = true.
Proof.
  destruct a as [x|], b as [y|], c as [z|]; simpl; try reflexivity; try discriminate.
  intros H1 H2. apply Qle_bool_iff in H1. apply Qle_bool_iff in H2. apply Qle_bool_iff. lra.
Qed.
Lemma ole_total a b : ole a b = false -> ole b a = true.
Proof.
  destruct a as [x|], b as [y|]; simpl; try reflexivity; try discriminate.
  intro H. apply Qle_bool_false in H. apply Qle_bool_iff. lra.
Qed.
Lemma ole_none_l b : ole None b = true -> b = None.
Proof. destruct b; simpl; [discriminate | reflexivity]. Qed.

Lemma ends_in_other_cons winner c t : t <> [] -> ends_in_other winner (c :: t) = ends_in_other winner t.
Proof.
  intro Hne. unfold ends_in_other. simpl. destruct (rev t) as [|y r] eqn:E.
  - exfalso. apply Hne. apply (f_equal (@rev cand)) in E. rewrite rev_involutive in E. exact E.
  - reflexivity.
Qed.

Section Complete2.
  Variable dfun : nat -> nat -> nat -> Q.
  Variable cands : list cand.
  Variable p : profile.
  Variable tot : nat.
  Variable hint : list cand.
  Variable winner : cand.
  Hypothesis Hnd : NoDup cands.
  Let nebs := neb_table dfun cands p tot.
  Let fba := find_best_audit dfun cands p tot nebs.

  Definition est_of (t : list cand) : option Q := option_map a_d (fba t).
  Definition tailok (t : list cand) : Prop :=
    2 <= length t /\ NoDup t /\ incl t cands /\ ends_in_other winner t = true.
  Definition psuf (t' t : list cand) : Prop := ends_with t' t /\ length t' < length t /\ 2 <= length t'.

  (* no assertion at all along the suffixes of some alternative order *)
  Definition Wit : Prop :=
    exists pi, alt cands winner pi /\ forall t, ends_with t pi -> 2 <= length t -> fba t = None.

  Lemma Wit_not_possible : Wit -> possible cands p winner = false.
  Proof.
    intros [pi [[Hp He] Hnone]]. destruct (possible cands p winner) eqn:E; [exfalso|reflexivity].
    apply possible_dec_correct in E; [|exact Hnd]. destruct E as [S [Ht Hs]].
    destruct (Hs pi Hp He) as [a [Ha Hc]].
    destruct (fba_complete dfun cands p tot Hnd a pi Hp (Ht a Ha) Hc) as [t [H1 [H2 H3]]].
    apply H3. apply Hnone; assumption.
  Qed.

  Definition HJ (h : heap) : Prop :=
    (forall i, i < length h -> n_est (get h i) = est_of (n_tail (get h i)) /\ n_best (get h i) = fba (n_tail (get h i))) /\
    (forall i, i < length h -> tailok (n_tail (get h i))) /\
    (forall i a, i < length h -> n_anc (get h i) = Some a ->
                 forall t', psuf t' (n_tail (get h i)) -> ole (n_est (get h a)) (est_of t') = true) /\
    (forall i, i < length h -> n_anc (get h i) = None -> length (n_tail (get h i)) = 2) /\
    (forall i, i < length h -> n_exp (get h i) = false ->
               length (n_tail (get h i)) = length cands \/ n_est (get h i) <> None).

  Lemma HJ_upd h id f : hwf h -> aok h -> HJ h -> keeps f -> (forall n, n_best (f n) = n_best n) ->
    (id < length h -> n_exp (f (get h id)) = false -> n_exp (get h id) = false \/ n_est (get h id) <> None) ->
    HJ (upd h id f).
  Proof.
    intros Hw Ha [J1 [J2 [J3 [J4 J5]]]] Hk Hb Hx.
    assert (Hcore : forall i, i < length h ->
              n_tail (get (upd h id f) i) = n_tail (get h i) /\ n_est (get (upd h id f) i) = n_est (get h i) /\
              n_anc (get (upd h id f) i) = n_anc (get h i) /\ n_best (get (upd h id f) i) = n_best (get h i)).
    { intros i Hi. rewrite get_upd by assumption. destruct (Nat.eqb i id); [|auto].
      destruct (Hk (get h i)) as [_ [H1 [H2 [H3 _]]]]. rewrite H1, H2, H3, Hb. repeat split; reflexivity. }
    unfold HJ. rewrite upd_length. split; [|split; [|split; [|split]]].
    - intros i Hi. destruct (Hcore i Hi) as [H1 [H2 [_ H4]]]. rewrite H1, H2, H4. apply J1. exact Hi.
    - intros i Hi. destruct (Hcore i Hi) as [H1 _]. rewrite H1. apply J2. exact Hi.
    - intros i a Hi. destruct (Hcore i Hi) as [H1 [_ [H3 _]]]. rewrite H1, H3. intros Hanc t' Ht'.
      destruct (Ha i a Hi Hanc) as [Halt _]. destruct (Hcore a Halt) as [_ [H2 _]]. rewrite H2. exact (J3 i a Hi Hanc t' Ht').
    - intros i Hi. destruct (Hcore i Hi) as [H1 [_ [H3 _]]]. rewrite H1, H3. apply J4. exact Hi.
    - intros i Hi. destruct (Hcore i Hi) as [H1 [H2 _]]. rewrite H1, H2. rewrite get_upd by assumption.
      destruct (Nat.eqb i id) eqn:E; [|apply J5; exact Hi]. apply Nat.eqb_eq in E. subst i. intro He.
      destruct (Hx Hi He) as [H|H]; [apply J5; assumption | right; exact H].
  Qed.

  Lemma ends_with_cons_inv (t' : list cand) c t : ends_with t' (c :: t) -> length t' < S (length t) -> ends_with t' t.
  Proof.
    intros [pre He] Hl. destruct pre as [|x pre].
    - simpl in He. subst t'. simpl in Hl. lia.
    - simpl in He. inversion He. exists pre. reflexivity.
  Qed.
  Lemma ends_with_len (a b : list cand) : ends_with a b -> length a <= length b.
  Proof. intros [pre He]. subst. rewrite app_length. lia. Qed.
  Lemma ends_with_same_len (a b : list cand) : ends_with a b -> length a = length b -> a = b.
  Proof.
    intros [pre He] Hl. subst. rewrite app_length in Hl. destruct pre; [reflexivity | simpl in Hl; lia].
  Qed.

  (* pushing a child c :: tail x of a valid node x *)
  Lemma HJ_child h x c dv : HI cands h -> HJ h -> nvalid h x -> In c cands -> ~ In c (n_tail x) ->
    HJ (new_node dfun cands p tot nebs (length h) (c :: n_tail x) (anc_for_child h x) dv :: h).
  Proof.
    intros [Hw [Ha He]] [J1 [J2 [J3 [J4 J5]]]] [Hv1 Hv2] Hc Hnc.
    set (newn := new_node dfun cands p tot nebs (length h) (c :: n_tail x) (anc_for_child h x) dv).
    assert (Hx2 : tailok (n_tail x)) by (rewrite <- Hv2; apply J2; exact Hv1).
    assert (Hxe : n_est x = est_of (n_tail x)) by (rewrite <- Hv2; apply J1; exact Hv1).
    assert (Hold : forall i, i < length h -> get (newn :: h) i = get h i) by (intros; apply get_cons_old; assumption).
    assert (Hnew : get (newn :: h) (length h) = newn) by apply get_cons_new.
    (* the chosen ancestor is below every proper suffix of the new tail *)
    assert (Hanc : forall a, anc_for_child h x = Some a -> a < length h /\
                     forall t', psuf t' (c :: n_tail x) -> ole (n_est (get h a)) (est_of t') = true).
    { intros a Hac.
      assert (Hsuf : forall t', psuf t' (c :: n_tail x) -> t' = n_tail x \/ psuf t' (n_tail x)).
      { intros t' [H1 [H2 H3]]. simpl in H2. pose proof (ends_with_cons_inv t' c (n_tail x) H1 H2) as He'.
        pose proof (ends_with_len _ _ He') as Hle.
        destruct (Nat.eq_dec (length t') (length (n_tail x))) as [Hq|Hq].
        - left. apply ends_with_same_len; assumption.
        - right. split; [exact He'|]. split; [lia | exact H3]. }
      unfold anc_for_child in Hac. destruct (n_anc x) as [a0|] eqn:Eanc.
      - assert (Hanc0 : n_anc (get h (n_id x)) = Some a0) by (rewrite Hv2; exact Eanc).
        destruct (Ha _ _ Hv1 Hanc0) as [Ha0 _].
        assert (Hj0 : forall t', psuf t' (n_tail x) -> ole (n_est (get h a0)) (est_of t') = true).
        { intros t' Ht'. apply (J3 _ _ Hv1 Hanc0). rewrite Hv2. exact Ht'. }
        destruct (ole (n_est (get h a0)) (n_est x)) eqn:Eo; inversion Hac; subst a.
        + split; [exact Ha0|]. intros t' Ht'. destruct (Hsuf t' Ht') as [Hq|Hq].
          * subst t'. rewrite <- Hxe. exact Eo.
          * apply Hj0. exact Hq.
        + split; [exact Hv1|]. rewrite Hv2. intros t' Ht'. destruct (Hsuf t' Ht') as [Hq|Hq].
          * subst t'. rewrite <- Hxe. apply ole_refl.
          * eapply ole_trans; [apply ole_total; exact Eo | apply Hj0; exact Hq].
      - inversion Hac. subst a. split; [exact Hv1|]. rewrite Hv2. intros t' Ht'. destruct (Hsuf t' Ht') as [Hq|Hq].
        + subst t'. rewrite <- Hxe. apply ole_refl.
        + exfalso. assert (Hl2 : length (n_tail x) = 2).
          { rewrite <- Hv2. apply J4; [exact Hv1 | rewrite Hv2; exact Eanc]. }
          destruct Hq as [_ [Hq1 Hq2]]. lia. }
    unfold HJ. simpl length. split; [|split; [|split; [|split]]].
    - intros i Hi. destruct (Nat.eq_dec i (length h)) as [Hq|Hq].
      + subst i. rewrite Hnew. split; reflexivity.
      + rewrite Hold by lia. apply J1. lia.
    - intros i Hi. destruct (Nat.eq_dec i (length h)) as [Hq|Hq].
      + subst i. rewrite Hnew. change (n_tail newn) with (c :: n_tail x).
        destruct Hx2 as [T1 [T2 [T3 T4]]]. split; [simpl; lia|]. split; [constructor; assumption|].
        split; [intros y [Hy|Hy]; [subst; exact Hc | apply T3; exact Hy]|].
        rewrite ends_in_other_cons; [exact T4|]. intro Hn. rewrite Hn in T1. simpl in T1. lia.
      + rewrite Hold by lia. apply J2. lia.
    - intros i a Hi. destruct (Nat.eq_dec i (length h)) as [Hq|Hq].
      + subst i. rewrite Hnew. change (n_anc newn) with (anc_for_child h x). change (n_tail newn) with (c :: n_tail x).
        intros Hac t' Ht'. destruct (Hanc a Hac) as [Halt Hmin]. rewrite Hold by exact Halt. apply Hmin. exact Ht'.
      + rewrite Hold by lia. intros Hac t' Ht'. assert (Hi0 : i < length h) by lia. destruct (Ha i a Hi0 Hac) as [Halt _].
        rewrite Hold by exact Halt. assert (Hi' : i < length h) by lia. exact (J3 i a Hi' Hac t' Ht').
    - intros i Hi. destruct (Nat.eq_dec i (length h)) as [Hq|Hq].
      + subst i. rewrite Hnew. change (n_anc newn) with (anc_for_child h x). unfold anc_for_child.
        destruct (n_anc x) as [a0|]; [destruct (ole (n_est (get h a0)) (n_est x))|]; discriminate.
      + rewrite Hold by lia. apply J4. lia.
    - intros i Hi. destruct (Nat.eq_dec i (length h)) as [Hq|Hq].
      + subst i. rewrite Hnew.
        change (n_exp newn) with (negb (Nat.eqb (length (c :: n_tail x)) (length cands))).
        change (n_tail newn) with (c :: n_tail x). intro H. left.
        apply negb_false_iff in H. apply Nat.eqb_eq in H. exact H.
      + rewrite Hold by lia. apply J5. lia.
  Qed.

  (* ---------------------------------------------------------------- "audit not possible" is justified *)
  Lemma manage_anp h fr lb newn fr' lb' t : manage_node h fr lb newn = (true, fr', lb', t) ->
    n_exp newn = false /\ n_est newn = None /\ (forall a, n_anc newn = Some a -> n_est (get h a) = None).
  Proof.
    unfold manage_node. destruct (n_exp newn); [intro H; discriminate|].
    destruct (n_est newn) as [en|] eqn:En.
    - destruct (n_est match n_anc newn with Some a => get h a | None => dummy_node end) as [eb|];
        destruct (ole _ _); intro H; discriminate.
    - destruct (n_anc newn) as [a|] eqn:Ea.
      + destruct (n_est (get h a)) as [eb|] eqn:Eb.
        * destruct (ole (Some eb) None); intro H; discriminate.
        * intros _. split; [reflexivity|]. split; [reflexivity|]. intros a0 H0. inversion H0. subst a0. exact Eb.
      + intros _. split; [reflexivity|]. split; [reflexivity|]. intros a0 H0. discriminate.
  Qed.

  Lemma est_of_none t : est_of t = None -> fba t = None.
  Proof. unfold est_of. destruct (fba t); [discriminate | reflexivity]. Qed.

  Lemma anp_wit h newn : HJ h -> nvalid h newn -> n_exp newn = false -> n_est newn = None ->
    (forall a, n_anc newn = Some a -> n_est (get h a) = None) -> Wit.
  Proof.
    intros [J1 [J2 [J3 [J4 J5]]]] [Hv1 Hv2] Hexp Hest Hanc.
    pose proof (J2 _ Hv1) as Htk. rewrite Hv2 in Htk. destruct Htk as [T1 [T2 [T3 T4]]].
    assert (Hlen : length (n_tail newn) = length cands).
    { destruct (J5 _ Hv1) as [H|H]; rewrite Hv2 in *; [exact Hexp | exact H | congruence]. }
    exists (n_tail newn). split.
    - split; [|exact T4]. apply Permutation_sym. apply NoDup_Permutation_bis; [exact T2 | lia | exact T3].
    - intros t Hend Hl2. apply est_of_none.
      destruct (Nat.eq_dec (length t) (length (n_tail newn))) as [Hq|Hq].
      + rewrite (ends_with_same_len _ _ Hend Hq). destruct (J1 _ Hv1) as [H _]. rewrite Hv2 in H. congruence.
      + assert (Hps : psuf t (n_tail newn)).
        { split; [exact Hend|]. split; [|exact Hl2]. pose proof (ends_with_len _ _ Hend). lia. }
        destruct (n_anc newn) as [a|] eqn:Ea.
        * assert (Ha' : n_anc (get h (n_id newn)) = Some a) by (rewrite Hv2; exact Ea).
          pose proof (J3 _ _ Hv1 Ha' t) as H. rewrite Hv2 in H. specialize (H Hps).
          rewrite (Hanc a eq_refl) in H. apply ole_none_l. exact H.
        * exfalso. assert (Hn : n_anc (get h (n_id newn)) = None) by (rewrite Hv2; exact Ea).
          pose proof (J4 _ Hv1 Hn) as H2. rewrite Hv2 in H2. destruct Hps as [_ [P1 P2]]. lia.
  Qed.


  (* ---------------------------------------------------------------- frontier order: nodes without an assertion that can
     still be expanded form a block at the front *)
  Definition infexp (h : heap) (z : fentry) : Prop := n_exp (get h (fe_id z)) = true /\ fe_est z = None.
  Definition FE (h : heap) (fr : list fentry) : Prop :=
    forall z, In z fr -> fe_est z = n_est (get h (fe_id z)).
  Definition Blk (h : heap) (fr : list fentry) : Prop :=
    exists blk rest, fr = blk ++ rest /\ (forall z, In z blk -> infexp h z) /\ (forall z, In z rest -> ~ infexp h z).
  Definition B2 (h : heap) (fr : list fentry) : Prop :=
    forall z, In z fr -> n_est (get h (fe_id z)) = None ->
              n_exp (get h (fe_id z)) = true \/ n_anc (get h (fe_id z)) = None.
  Definition FJ (h : heap) (fr : list fentry) : Prop := FE h fr /\ Blk h fr /\ B2 h fr.

  Lemma ins_sorted_blk e x blk rest : (forall z, In z blk -> fe_est z = None) ->
    ins_sorted e x (blk ++ rest) = blk ++ ins_sorted e x rest.
  Proof.
    intro H. induction blk as [|y r IH]; simpl; [reflexivity|].
    rewrite (H y (or_introl eq_refl)). simpl. rewrite IH; [reflexivity|]. intros z Hz. apply H. right. exact Hz.
  Qed.

  (* a node that may be inserted: if it has no assertion it is expandable or an initial node *)
  Definition insertable (n : node) : Prop := n_est n = None -> n_exp n = true \/ n_anc n = None.

  Lemma FJ_insert h fr n : FV h fr -> FJ h fr -> nvalid h n -> insertable n -> FJ h (insert_node fr n).
  Proof.
    intros Hf [He [Hb H2]] [Hv1 Hv2] Hins.
    assert (Hfe : fe_est (fe_of n) = n_est (get h (fe_id (fe_of n)))).
    { change (fe_id (fe_of n)) with (n_id n). rewrite Hv2. reflexivity. }
    split; [|split].
    - intros z Hz. apply insert_node_in in Hz. destruct Hz as [Hz|Hz]; [subst z; exact Hfe | apply He; exact Hz].
    - destruct Hb as [blk [rest [Hfr [Hb1 Hb2]]]]. unfold insert_node.
      destruct (negb (n_exp n)) eqn:Eexp.
      + exists blk, (rest ++ [fe_of n]). split; [rewrite Hfr; symmetry; apply app_assoc|]. split; [exact Hb1|].
        intros z Hz. apply in_app_or in Hz. destruct Hz as [Hz|[Hz|[]]]; [apply Hb2; exact Hz|].
        subst z. intros [Hx _]. change (fe_id (fe_of n)) with (n_id n) in Hx. rewrite Hv2 in Hx.
        apply negb_true_iff in Eexp. congruence.
      + apply negb_false_iff in Eexp. destruct (n_est n) as [e|] eqn:Een.
        * exists blk, (ins_sorted e (fe_of n) rest). split.
          -- rewrite Hfr. apply ins_sorted_blk. intros z Hz. apply (Hb1 z Hz).
          -- split; [exact Hb1|]. intros z Hz. apply ins_sorted_in in Hz. destruct Hz as [Hz|Hz]; [|apply Hb2; exact Hz].
             subst z. intros [_ Hx]. unfold fe_of, fe_est in Hx. simpl in Hx. congruence.
        * exists (fe_of n :: blk), rest. split; [rewrite Hfr; reflexivity|]. split; [|exact Hb2].
          intros z [Hz|Hz]; [|apply Hb1; exact Hz]. subst z. split.
          -- change (fe_id (fe_of n)) with (n_id n). rewrite Hv2. exact Eexp.
          -- unfold fe_of, fe_est. simpl. exact Een.
    - intros z Hz. apply insert_node_in in Hz. destruct Hz as [Hz|Hz]; [|apply H2; exact Hz].
      subst z. change (fe_id (fe_of n)) with (n_id n). rewrite Hv2. exact Hins.
  Qed.

  Lemma Blk_filter h fr g : Blk h fr -> Blk h (filter g fr).
  Proof.
    intros [blk [rest [Hfr [Hb1 Hb2]]]]. exists (filter g blk), (filter g rest).
    split; [rewrite Hfr; apply filter_app|].
    split; intros z Hz; apply filter_In in Hz; [apply Hb1 | apply Hb2]; apply Hz.
  Qed.
  Lemma FJ_replace h fr a : FV h fr -> FJ h fr -> nvalid h a -> insertable a -> FJ h (replace_desc fr a).
  Proof.
    intros Hf [He [Hb H2]] Hv Hins. unfold replace_desc. apply FJ_insert; try assumption.
    - intros x Hx. apply filter_In in Hx. apply Hf. apply Hx.
    - split; [|split].
      + intros z Hz. apply filter_In in Hz. apply He. apply Hz.
      + apply Blk_filter. exact Hb.
      + intros z Hz. apply filter_In in Hz. apply H2. apply Hz.
  Qed.
  Lemma FJ_tail h x fr1 : FJ h (x :: fr1) -> FJ h fr1.
  Proof.
    intros [He [Hb H2]]. split; [|split].
    - intros z Hz. apply He. right. exact Hz.
    - destruct Hb as [blk [rest [Hfr [Hb1 Hb2]]]]. destruct blk as [|y blk].
      + simpl in Hfr. destruct rest as [|y rest]; [discriminate|]. inversion Hfr. subst.
        exists [], rest. split; [reflexivity|]. split; [intros z []|]. intros z Hz. apply Hb2. right. exact Hz.
      + simpl in Hfr. inversion Hfr. subst. exists blk, rest. split; [reflexivity|].
        split; [intros z Hz; apply Hb1; right; exact Hz | exact Hb2].
    - intros z Hz. apply H2. right. exact Hz.
  Qed.

  (* heap changes that do not alter exp / est / anc of the nodes the frontier refers to *)
  Lemma FJ_heap h h' fr : FJ h fr ->
    (forall z, In z fr -> n_exp (get h' (fe_id z)) = n_exp (get h (fe_id z)) /\
                          n_est (get h' (fe_id z)) = n_est (get h (fe_id z)) /\
                          n_anc (get h' (fe_id z)) = n_anc (get h (fe_id z))) ->
    FJ h' fr.
  Proof.
    intros [He [Hb H2]] Hsame. split; [|split].
    - intros z Hz. destruct (Hsame z Hz) as [_ [H _]]. rewrite H. apply He. exact Hz.
    - destruct Hb as [blk [rest [Hfr [Hb1 Hb2]]]]. exists blk, rest. split; [exact Hfr|]. split.
      + intros z Hz. assert (Hin : In z fr) by (rewrite Hfr; apply in_or_app; left; exact Hz).
        destruct (Hsame z Hin) as [H _]. destruct (Hb1 z Hz) as [G1 G2]. split; [rewrite H; exact G1 | exact G2].
      + intros z Hz. assert (Hin : In z fr) by (rewrite Hfr; apply in_or_app; right; exact Hz).
        destruct (Hsame z Hin) as [H _]. intros [G1 G2]. apply (Hb2 z Hz). split; [rewrite <- H; exact G1 | exact G2].
    - intros z Hz. destruct (Hsame z Hz) as [G1 [G2 G3]]. rewrite G1, G2, G3. apply H2. exact Hz.
  Qed.
  Lemma FJ_cons n h fr : FV h fr -> FJ h fr -> FJ (n :: h) fr.
  Proof.
    intros Hf Hj. apply (FJ_heap h); [exact Hj|]. intros z Hz. rewrite get_cons_old by (apply (Hf z Hz)). auto.
  Qed.
  Lemma FJ_upd_explored h fr id c : hwf h -> FV h fr -> FJ h fr -> FJ (upd h id (add_explored c)) fr.
  Proof.
    intros Hw Hf Hj. apply (FJ_heap h); [exact Hj|]. intros z Hz. rewrite get_upd by (try assumption; apply (Hf z Hz)).
    destruct (Nat.eqb (fe_id z) id); auto.
  Qed.
  (* making a node with an assertion a leaf *)
  Lemma FJ_upd_leaf h fr id : hwf h -> FV h fr -> id < length h -> n_est (get h id) <> None -> FJ h fr ->
    FJ (upd h id set_exp_false) fr.
  Proof.
    intros Hw Hf Hid Hest [He [Hb H2]].
    assert (Hg : forall z, In z fr -> get (upd h id set_exp_false) (fe_id z) =
                   if Nat.eqb (fe_id z) id then set_exp_false (get h (fe_id z)) else get h (fe_id z)).
    { intros z Hz. apply get_upd; [exact Hw | apply (Hf z Hz)]. }
    split; [|split].
    - intros z Hz. rewrite (Hg z Hz). destruct (Nat.eqb (fe_id z) id); apply He; exact Hz.
    - destruct Hb as [blk [rest [Hfr [Hb1 Hb2]]]]. exists blk, rest. split; [exact Hfr|].
      assert (Hni : forall z, In z fr -> infexp h z -> fe_id z <> id).
      { intros z Hz [_ G2] Heq. rewrite (He z Hz), Heq in G2. contradiction. }
      split.
      + intros z Hz. assert (Hin : In z fr) by (rewrite Hfr; apply in_or_app; left; exact Hz).
        pose proof (Hb1 z Hz) as Hi. pose proof (Hni z Hin Hi) as Hne. apply Nat.eqb_neq in Hne.
        unfold infexp. rewrite (Hg z Hin), Hne. exact Hi.
      + intros z Hz. assert (Hin : In z fr) by (rewrite Hfr; apply in_or_app; right; exact Hz).
        intros [G1 G2]. rewrite (Hg z Hin) in G1. destruct (Nat.eqb (fe_id z) id) eqn:E.
        * simpl in G1. discriminate.
        * apply (Hb2 z Hz). split; assumption.
    - intros z Hz. rewrite (Hg z Hz). destruct (Nat.eqb (fe_id z) id) eqn:E.
      + apply Nat.eqb_eq in E. simpl. intro Hn. rewrite E in Hn. contradiction.
      + apply H2. exact Hz.
  Qed.


  Lemma manage_J h fr lb newn fr' lb' t :
    HI cands h -> FV h fr -> FJ h fr -> nvalid h newn ->
    manage_node h fr lb newn = (false, fr', lb', t) -> FJ h fr'.
  Proof.
    intros [Hw [Ha He]] Hf Hj Hv. unfold manage_node.
    destruct (n_exp newn) eqn:Eexp.
    - intro H. inversion H. subst. apply FJ_insert; try assumption. intros _. left. exact Eexp.
    - set (ba := match n_anc newn with Some a => get h a | None => dummy_node end).
      assert (Hins : n_est newn <> None -> FJ h (insert_node fr newn)).
      { intro Hne. apply FJ_insert; try assumption. intro Hn. contradiction. }
      assert (Hrep : n_est ba <> None -> FJ h (replace_desc fr ba)).
      { intro Hne. unfold ba in *. destruct (n_anc newn) as [a|] eqn:Eanc; [|simpl in Hne; congruence].
        destruct Hv as [Hv1 Hv2].
        assert (Hanc : n_anc (get h (n_id newn)) = Some a) by (rewrite Hv2; exact Eanc).
        destruct (Ha _ _ Hv1 Hanc) as [Halt _].
        apply FJ_replace; try assumption; [apply nvalid_get; assumption | intro Hn; contradiction]. }
      destruct (n_est newn) as [en|] eqn:En; destruct (n_est ba) as [eb|] eqn:Eb.
      + destruct (ole (Some eb) (Some en)); intro H; inversion H; subst; [apply Hrep | apply Hins]; discriminate.
      + destruct (ole None (Some en)) eqn:Eo; intro H; inversion H; subst; [simpl in Eo; discriminate | apply Hins; discriminate].
      + destruct (ole (Some eb) None) eqn:Eo; intro H; inversion H; subst; [apply Hrep; discriminate | simpl in Eo; discriminate].
      + intro H. discriminate.
  Qed.

  Lemma expand_J cs : forall te h fr lb b h' fr' lb',
    HI cands h -> HJ h -> FV h fr -> FJ h fr -> nvalid h te -> incl cs cands ->
    expand dfun cands p tot nebs cs te h fr lb = (b, h', fr', lb') ->
    (b = true -> Wit) /\ (b = false -> HJ h' /\ FJ h' fr').
  Proof.
    induction cs as [|c r IH]; intros te h fr lb b h' fr' lb' Hh Hhj Hf Hfj Hv Hinc; cbn [expand].
    - intro H. inversion H. subst. split; [discriminate | intros _; split; assumption].
    - assert (Hr : incl r cands) by (intros y Hy; apply Hinc; right; exact Hy).
      destruct (negb (mem c (n_tail te)) && negb (mem c (n_explored te))) eqn:Econd; [|apply IH; assumption].
      apply andb_true_iff in Econd. destruct Econd as [Ec1 _]. apply negb_true_iff in Ec1. apply mem_false in Ec1.
      assert (Hc : In c cands) by (apply Hinc; left; reflexivity).
      destruct (push_child dfun cands p tot nebs h te c false Hh Hv) as [Hh1 [Hv1 [Hex1 Htl1]]].
      pose proof (HJ_child h te c false Hh Hhj Hv Hc Ec1) as Hhj1.
      set (newn := new_node dfun cands p tot nebs (length h) (c :: n_tail te) (anc_for_child h te) false) in *.
      pose proof (FV_cons newn h fr Hf) as Hf1. pose proof (FJ_cons newn h fr Hf Hfj) as Hfj1.
      destruct (manage_node (newn :: h) fr lb newn) as [[[b1 f1] l1] t1] eqn:Em.
      destruct b1.
      + intro H. inversion H. subst. split; [|discriminate]. intros _.
        destruct (manage_anp _ _ _ _ _ _ _ Em) as [G1 [G2 G3]]. eapply anp_wit; eauto.
      + destruct (manage_ok _ _ _ _ _ _ _ _ Hh1 Hf1 Hv1 Hex1 Em) as [_ [Hf2 _]].
        pose proof (manage_J _ _ _ _ _ _ _ Hh1 Hf1 Hfj1 Hv1 Em) as Hfj2.
        apply IH; try assumption. apply nvalid_cons. exact Hv.
  Qed.

  Lemma dive_J fuel : forall h fr lb nid h' fr' r,
    HI cands h -> HJ h -> FV h fr -> FJ h fr -> nid < length h ->
    perform_dive dfun cands p tot hint nebs fuel h fr lb nid = Some (h', fr', r) ->
    (r = None -> Wit) /\ (r <> None -> HJ h' /\ FJ h' fr').
  Proof.
    induction fuel as [|f IH]; intros h fr lb nid h' fr' r Hh Hhj Hf Hfj Hnid; cbn [perform_dive]; [discriminate|].
    destruct (filter (fun c => negb (mem c (n_tail (get h nid)))) cands) as [|r0 rest] eqn:Ef; [discriminate|].
    set (next := dive_choice hint r0 rest).
    assert (Hnext : In next cands /\ ~ In next (n_tail (get h nid))).
    { assert (Hin : In next (r0 :: rest)) by apply dive_choice_in. rewrite <- Ef in Hin. apply filter_In in Hin.
      destruct Hin as [H1 H2]. split; [exact H1|]. apply negb_true_iff in H2. apply mem_false in H2. exact H2. }
    set (h1 := upd h nid (add_explored next)).
    assert (Hw : hwf h) by apply Hh. assert (Hao : aok h) by apply Hh.
    pose proof (keeps_add_explored next) as Hk.
    assert (Hh1 : HI cands h1) by (apply HI_upd; assumption).
    assert (Hhj1 : HJ h1) by (apply HJ_upd; try assumption; [reflexivity | intros _ Hx0; left; exact Hx0]).
    assert (Hf1 : FV h1 fr) by (apply FV_upd; assumption).
    assert (Hfj1 : FJ h1 fr) by (apply FJ_upd_explored; assumption).
    assert (Hnid1 : nid < length h1) by (unfold h1; rewrite upd_length; exact Hnid).
    assert (Hw1 : hwf h1) by apply Hh1.
    pose proof (nvalid_get h1 nid Hw1 Hnid1) as Hvx.
    assert (Hx1 : get h1 nid = add_explored next (get h nid)).
    { unfold h1. rewrite get_upd by assumption. rewrite Nat.eqb_refl. reflexivity. }
    (* the new node as a child of the updated node *)
    assert (Heq : new_node dfun cands p tot nebs (length h1) (next :: n_tail (get h nid)) (anc_for_child h (get h nid)) true
                  = new_node dfun cands p tot nebs (length h1) (next :: n_tail (get h1 nid)) (anc_for_child h1 (get h1 nid)) true).
    { rewrite Hx1. change (n_tail (add_explored next (get h nid))) with (n_tail (get h nid)). f_equal.
      unfold anc_for_child. change (n_anc (add_explored next (get h nid))) with (n_anc (get h nid)).
      change (n_est (add_explored next (get h nid))) with (n_est (get h nid)).
      change (n_id (add_explored next (get h nid))) with (n_id (get h nid)).
      destruct (n_anc (get h nid)) as [a|] eqn:Ea; [|reflexivity].
      destruct (Hao _ _ Hnid Ea) as [Halt _].
      assert (He : n_est (get h1 a) = n_est (get h a)).
      { unfold h1. rewrite get_upd by assumption. destruct (Nat.eqb a nid); reflexivity. }
      rewrite He. reflexivity. }
    rewrite Heq.
    assert (Hnt : ~ In next (n_tail (get h1 nid))) by (rewrite Hx1; apply Hnext).
    destruct (push_child dfun cands p tot nebs h1 (get h1 nid) next true Hh1 Hvx) as [Hh2 [Hv2 [Hex2 Htl2]]].
    pose proof (HJ_child h1 (get h1 nid) next true Hh1 Hhj1 Hvx (proj1 Hnext) Hnt) as Hhj2.
    set (newn := new_node dfun cands p tot nebs (length h1) (next :: n_tail (get h1 nid)) (anc_for_child h1 (get h1 nid)) true) in *.
    pose proof (FV_cons newn h1 fr Hf1) as Hf2. pose proof (FJ_cons newn h1 fr Hf1 Hfj1) as Hfj2.
    destruct (manage_node (newn :: h1) fr lb newn) as [[[b1 f1] l1] t1] eqn:Em.
    destruct b1.
    - intro H. inversion H. subst. split; [|congruence]. intros _.
      destruct (manage_anp _ _ _ _ _ _ _ Em) as [G1 [G2 G3]]. eapply anp_wit; eauto.
    - destruct (manage_ok _ _ _ _ _ _ _ _ Hh2 Hf2 Hv2 Hex2 Em) as [_ [Hf3 _]].
      pose proof (manage_J _ _ _ _ _ _ _ Hh2 Hf2 Hfj2 Hv2 Em) as Hfj3.
      destruct t1.
      + intro H. inversion H. subst. split; [discriminate|]. intros _. split; assumption.
      + apply IH; try assumption. apply Hv2.
  Qed.


  Lemma ole_some_ne e lb : ole e (Some lb) = true -> e <> None.
  Proof. destruct e; [discriminate | simpl; discriminate]. Qed.

  Definition head_leaf (h : heap) (fr : list fentry) : Prop :=
    exists x r, fr = x :: r /\ n_exp (get h (fe_id x)) = false.

  Lemma search_J fuel : forall h fr lb,
    HI cands h -> HJ h -> FV h fr -> FJ h fr ->
    match search dfun cands p tot hint nebs fuel h fr lb with
    | NotPossible => Wit
    | Finished h' fr' => HJ h' /\ FJ h' fr' /\ FV h' fr' /\ hwf h' /\ head_leaf h' fr'
    | OutOfFuel => True
    end.
  Proof.
    induction fuel as [|f IH]; intros h fr lb Hh Hhj Hf Hfj; cbn [search]; [exact I|].
    destruct fr as [|x fr1]; [exact I|].
    assert (Hw : hwf h) by apply Hh. assert (Hao : aok h) by apply Hh.
    assert (Hx : fe_id x < length h) by (apply (Hf x); left; reflexivity).
    assert (Hf1 : FV h fr1) by (eapply FV_tail; eauto).
    assert (Hfj1 : FJ h fr1) by (eapply FJ_tail; eauto).
    set (te := get h (fe_id x)).
    assert (Hidte : n_id te = fe_id x) by (apply Hw; exact Hx).
    assert (Hvte : nvalid h te) by (apply nvalid_get; assumption).
    destruct (negb (n_exp te)) eqn:Eexp.
    { apply negb_true_iff in Eexp. split; [exact Hhj|]. split; [exact Hfj|]. split; [exact Hf|]. split; [exact Hw|].
      exists x, fr1. split; [reflexivity | exact Eexp]. }
    apply negb_false_iff in Eexp.
    destruct (anc_le h te lb) as [an|] eqn:Eanc.
    { destruct (anc_le_some _ _ _ _ Eanc) as [a [Ha1 [Ha2 Ha3]]]. subst an.
      destruct (Hao _ _ Hx Ha1) as [Halt _].
      pose proof (nvalid_get h a Hw Halt) as Hva.
      apply IH; [exact Hh | exact Hhj | apply FV_replace; assumption|].
      apply FJ_replace; try assumption. intro Hn. exfalso. apply (ole_some_ne _ _ Ha3). exact Hn. }
    destruct (ole (n_est te) (Some lb)) eqn:Eest.
    { rewrite Hidte. pose proof keeps_set_exp_false as Hk.
      assert (Hne : n_est (get h (fe_id x)) <> None) by (apply (ole_some_ne _ _ Eest)).
      assert (Hh' : HI cands (upd h (fe_id x) set_exp_false)) by (apply HI_upd; assumption).
      assert (Hhj' : HJ (upd h (fe_id x) set_exp_false)).
      { apply HJ_upd; try assumption; [reflexivity | intros _ _; right; exact Hne]. }
      assert (Hx' : fe_id x < length (upd h (fe_id x) set_exp_false)) by (rewrite upd_length; exact Hx).
      pose proof (nvalid_get _ _ (proj1 Hh') Hx') as Hv'.
      assert (Hf' : FV (upd h (fe_id x) set_exp_false) fr1) by (apply FV_upd; assumption).
      apply IH; [exact Hh' | exact Hhj' | apply FV_insert; assumption|].
      apply FJ_insert; try assumption; [apply FJ_upd_leaf; assumption|].
      intro Hn. exfalso. rewrite get_upd in Hn by assumption. rewrite Nat.eqb_refl in Hn. simpl in Hn. contradiction. }
    destruct (n_dive te) eqn:Edive.
    { destruct (expand dfun cands p tot nebs cands te h fr1 lb) as [[[b h2] fr2] lb2] eqn:Ee.
      destruct (expand_J _ _ _ _ _ _ _ _ _ Hh Hhj Hf1 Hfj1 Hvte (fun y Hy => Hy) Ee) as [Hb1 Hb2].
      destruct b; [apply Hb1; reflexivity|].
      destruct (expand_inv _ _ _ _ _ _ _ _ _ _ _ _ _ Hh Hf1 Hvte Ee) as [Hh2 [Hf2 _]].
      destruct (Hb2 eq_refl) as [Hhj2 Hfj2]. apply IH; assumption. }
    rewrite Hidte.
    destruct (perform_dive dfun cands p tot hint nebs (S (ncands cands)) h fr1 lb (fe_id x)) as [[[h1 fr2] r]|] eqn:Ed;
      [|exact I].
    destruct (dive_J _ _ _ _ _ _ _ _ Hh Hhj Hf1 Hfj1 Hx Ed) as [Hd1 Hd2].
    destruct r as [dlb|]; [|apply Hd1; reflexivity].
    destruct (Hd2 ltac:(discriminate)) as [Hhj1 Hfj2].
    destruct (dive_inv _ _ _ _ _ _ _ _ _ _ _ _ _ _ Hh Hf1 Hx Ed) as [next [_ [_ [Hh1 [Hf2 [_ [Hlen1 _]]]]]]].
    assert (Hx1 : fe_id x < length h1) by lia.
    assert (Hw1 : hwf h1) by apply Hh1.
    set (te1 := get h1 (fe_id x)).
    assert (Hid1 : n_id te1 = fe_id x) by (apply Hw1; exact Hx1).
    fold te1. rewrite Hid1.
    destruct (anc_le h1 te1 (Qmaxb lb dlb)) as [an|] eqn:Eanc1.
    { destruct (anc_le_some _ _ _ _ Eanc1) as [a [Ha1 [Ha2 Ha3]]]. subst an.
      destruct (proj1 (proj2 Hh1) _ _ Hx1 Ha1) as [Halt _].
      pose proof (nvalid_get h1 a Hw1 Halt) as Hva.
      apply IH; [exact Hh1 | exact Hhj1 | apply FV_replace; assumption|].
      apply FJ_replace; try assumption. intro Hn. exfalso. apply (ole_some_ne _ _ Ha3). exact Hn. }
    destruct (ole (n_est te1) (Some (Qmaxb lb dlb))) eqn:Eest1.
    { pose proof keeps_set_exp_false as Hk.
      assert (Hne : n_est (get h1 (fe_id x)) <> None) by (apply (ole_some_ne _ _ Eest1)).
      assert (Hh' : HI cands (upd h1 (fe_id x) set_exp_false)) by (apply HI_upd; assumption).
      assert (Hhj' : HJ (upd h1 (fe_id x) set_exp_false)).
      { apply HJ_upd; try assumption; [apply Hh1 | reflexivity | intros _ _; right; exact Hne]. }
      assert (Hx' : fe_id x < length (upd h1 (fe_id x) set_exp_false)) by (rewrite upd_length; exact Hx1).
      pose proof (nvalid_get _ _ (proj1 Hh') Hx') as Hv'.
      assert (Hf' : FV (upd h1 (fe_id x) set_exp_false) fr2) by (apply FV_upd; assumption).
      apply IH; [exact Hh' | exact Hhj' | apply FV_insert; assumption|].
      apply FJ_insert; try assumption; [apply FJ_upd_leaf; assumption|].
      intro Hn. exfalso. rewrite get_upd in Hn by assumption. rewrite Nat.eqb_refl in Hn. simpl in Hn. contradiction. }
    assert (Hvte1 : nvalid h1 te1) by (apply nvalid_get; assumption).
    destruct (expand dfun cands p tot nebs cands te1 h1 fr2 (Qmaxb lb dlb)) as [[[b h2] fr3] lb2] eqn:Ee.
    destruct (expand_J _ _ _ _ _ _ _ _ _ Hh1 Hhj1 Hf2 Hfj2 Hvte1 (fun y Hy => Hy) Ee) as [Hb1 Hb2].
    destruct b; [apply Hb1; reflexivity|].
    destruct (expand_inv _ _ _ _ _ _ _ _ _ _ _ _ _ Hh1 Hf2 Hvte1 Ee) as [Hh2 [Hf3 _]].
    destruct (Hb2 eq_refl) as [Hhj2 Hfj3]. apply IH; assumption.
  Qed.


  (* ---------------------------------------------------------------- the initial state *)
  Lemma HJ_root h d c : HI cands h -> HJ h -> In c cands -> In d cands -> c <> d -> c <> winner ->
    HJ (new_node dfun cands p tot nebs (length h) [d; c] None false :: h).
  Proof.
    intros [Hw [Ha He]] [J1 [J2 [J3 [J4 J5]]]] Hc Hd Hcd Hcw.
    set (newn := new_node dfun cands p tot nebs (length h) [d; c] None false).
    assert (Hold : forall i, i < length h -> get (newn :: h) i = get h i) by (intros; apply get_cons_old; assumption).
    assert (Hnew : get (newn :: h) (length h) = newn) by apply get_cons_new.
    unfold HJ. simpl length. split; [|split; [|split; [|split]]].
    - intros i Hi. destruct (Nat.eq_dec i (length h)) as [Hq|Hq].
      + subst i. rewrite Hnew. split; reflexivity.
      + rewrite Hold by lia. apply J1. lia.
    - intros i Hi. destruct (Nat.eq_dec i (length h)) as [Hq|Hq].
      + subst i. rewrite Hnew. change (n_tail newn) with [d; c]. split; [simpl; lia|]. split.
        * constructor; [intros [H|[]]; apply Hcd; exact H | constructor; [intros [] | constructor]].
        * split; [intros y [Hy|[Hy|[]]]; subst; assumption|].
          unfold ends_in_other. simpl. apply negb_true_iff. apply Nat.eqb_neq. exact Hcw.
      + rewrite Hold by lia. apply J2. lia.
    - intros i a Hi. destruct (Nat.eq_dec i (length h)) as [Hq|Hq].
      + subst i. rewrite Hnew. change (n_anc newn) with (@None nat). discriminate.
      + rewrite Hold by lia. intros Hac t' Ht'. assert (Hi0 : i < length h) by lia.
        destruct (Ha i a Hi0 Hac) as [Halt _]. rewrite Hold by exact Halt. exact (J3 i a Hi0 Hac t' Ht').
    - intros i Hi. destruct (Nat.eq_dec i (length h)) as [Hq|Hq].
      + subst i. rewrite Hnew. intros _. reflexivity.
      + rewrite Hold by lia. apply J4. lia.
    - intros i Hi. destruct (Nat.eq_dec i (length h)) as [Hq|Hq].
      + subst i. rewrite Hnew.
        change (n_exp newn) with (negb (Nat.eqb (length [d; c]) (length cands))).
        change (n_tail newn) with [d; c]. intro H. left.
        apply negb_false_iff in H. apply Nat.eqb_eq in H. exact H.
      + rewrite Hold by lia. apply J5. lia.
  Qed.

  Definition SI2 (st : heap * list fentry) : Prop :=
    HI cands (fst st) /\ FV (fst st) (snd st) /\ HJ (fst st) /\ FJ (fst st) (snd st).

  Lemma inner_step2 c st d : In c cands -> c <> winner -> In d cands -> SI2 st ->
    SI2 (inner dfun cands p tot nebs c st d).
  Proof.
    intros Hc Hcw Hd [Hh [Hf [Hhj Hfj]]]. unfold inner. destruct (Nat.eqb c d) eqn:E; [split; [exact Hh|]; split; [exact Hf|]; split; [exact Hhj | exact Hfj]|].
    apply Nat.eqb_neq in E.
    assert (Hanc : forall a, (None : option nat) = Some a ->
                     a < length (fst st) /\ ends_with (n_tail (get (fst st) a)) [d; c]) by (intros a Ha; discriminate).
    destruct (push_node dfun cands p tot nebs (fst st) [d; c] None false Hh Hanc) as [Hh1 [Hv1 [Hex1 Htl1]]].
    pose proof (HJ_root (fst st) d c Hh Hhj Hc Hd E Hcw) as Hhj1.
    set (newn := new_node dfun cands p tot nebs (length (fst st)) [d; c] None false) in *.
    cbv zeta. unfold SI2. simpl fst. simpl snd.
    pose proof (FV_cons newn (fst st) (snd st) Hf) as Hf1.
    split; [exact Hh1|]. split; [apply FV_insert; assumption|]. split; [exact Hhj1|].
    apply FJ_insert; try assumption; [apply FJ_cons; assumption|]. intros _. right. reflexivity.
  Qed.

  Lemma initial_inv2 :
    let st := initial dfun cands p tot nebs winner in SI2 st.
  Proof.
    intro st. unfold st. rewrite initial_eq.
    apply (fold_left_inv SI2).
    - unfold SI2. simpl. destruct (SI_empty cands) as [H1 H2]. split; [exact H1|]. split; [exact H2|]. split.
      + unfold HJ. simpl. repeat split; intros; lia.
      + split; [intros z []|]. split; [|intros z []]. exists [], []. split; [reflexivity|]. split; intros z0 [].
    - intros st0 c Hst Hc. unfold outer. destruct (Nat.eqb c winner) eqn:E; [exact Hst|]. apply Nat.eqb_neq in E.
      apply (fold_left_inv SI2); [exact Hst|]. intros st1 d Hst1 Hd. apply inner_step2; assumption.
  Qed.

  (* ---------------------------------------------------------------- the two [] exits *)
  Lemma dedup_none h fr : forall acc, dedup h fr acc = None -> exists x, In x fr /\ n_best (get h (fe_id x)) = None.
  Proof.
    induction fr as [|x r IH]; simpl; intros acc; [discriminate|].
    destruct (n_best (get h (fe_id x))) as [b|] eqn:Eb.
    - destruct (merge_same acc b) as [acc'|]; intro H; destruct (IH _ H) as [y [Hy1 Hy2]]; exists y; split; auto.
    - intros _. exists x. split; [left; reflexivity | exact Eb].
  Qed.

  Lemma finished_none_wit h fr x : hwf h -> HJ h -> FV h fr -> FJ h fr -> head_leaf h fr ->
    In x fr -> n_best (get h (fe_id x)) = None -> Wit.
  Proof.
    intros Hw [J1 [J2 [J3 [J4 J5]]]] Hf [He [Hb H2]] [x0 [r0 [Hfr Hleaf]]] Hx Hbest.
    destruct (Hf x Hx) as [Hxi _].
    destruct (J1 _ Hxi) as [Hest Hbst].
    assert (Hfba : fba (n_tail (get h (fe_id x))) = None) by (rewrite <- Hbst; exact Hbest).
    assert (Hen : n_est (get h (fe_id x)) = None) by (rewrite Hest; unfold est_of; rewrite Hfba; reflexivity).
    destruct (H2 x Hx Hen) as [Hexp|Hanc].
    - exfalso. assert (Hinf : infexp h x) by (split; [exact Hexp | rewrite (He x Hx); exact Hen]).
      destruct Hb as [blk [rest [Hbr [Hb1 Hb2]]]].
      assert (Hxb : In x blk).
      { rewrite Hbr in Hx. apply in_app_or in Hx. destruct Hx as [Hx|Hx]; [exact Hx | exfalso; apply (Hb2 x Hx); exact Hinf]. }
      destruct blk as [|y blk]; [destruct Hxb|]. rewrite Hfr in Hbr. simpl in Hbr. inversion Hbr. subst y.
      destruct (Hb1 x0 (or_introl eq_refl)) as [G _]. congruence.
    - pose proof (J4 _ Hxi Hanc) as Hl2.
      destruct (n_exp (get h (fe_id x))) eqn:Eexp.
      + (* expandable root without assertion: impossible when the head is a leaf, as above *)
        exfalso. assert (Hinf : infexp h x) by (split; [exact Eexp | rewrite (He x Hx); exact Hen]).
        destruct Hb as [blk [rest [Hbr [Hb1 Hb2]]]].
        assert (Hxb : In x blk).
        { rewrite Hbr in Hx. apply in_app_or in Hx. destruct Hx as [Hx|Hx]; [exact Hx | exfalso; apply (Hb2 x Hx); exact Hinf]. }
        destruct blk as [|y blk]; [destruct Hxb|]. rewrite Hfr in Hbr. simpl in Hbr. inversion Hbr. subst y.
        destruct (Hb1 x0 (or_introl eq_refl)) as [G _]. congruence.
      + destruct (J5 _ Hxi Eexp) as [Hlen|Hne]; [|contradiction].
        destruct (J2 _ Hxi) as [T1 [T2 [T3 T4]]].
        exists (n_tail (get h (fe_id x))). split.
        * split; [|exact T4]. apply Permutation_sym. apply NoDup_Permutation_bis; [exact T2 | lia | exact T3].
        * intros t Hend Hlt. pose proof (ends_with_len _ _ Hend) as Hle.
          assert (Hq : length t = length (n_tail (get h (fe_id x)))) by lia.
          rewrite (ends_with_same_len _ _ Hend Hq). exact Hfba.
  Qed.


  (* ---------------------------------------------------------------- the final passes do not lose everything *)
  Lemma merge_same_len acc b acc' : merge_same acc b = Some acc' -> length acc' = length acc.
  Proof.
    revert acc'. induction acc as [|a r IH]; simpl; intros acc'; [discriminate|].
    destruct (same_as (a_as b) (a_as a)); [intro H; inversion H; reflexivity|].
    destruct (merge_same r b) as [r'|]; simpl; [|discriminate]. intro H. inversion H. simpl. rewrite (IH r' eq_refl). reflexivity.
  Qed.
  Lemma dedup_len h fr : forall acc l, dedup h fr acc = Some l -> length acc <= length l /\ (fr <> [] -> 1 <= length l).
  Proof.
    induction fr as [|x r IH]; simpl; intros acc l.
    - intro H. inversion H. split; [lia | congruence].
    - destruct (n_best (get h (fe_id x))) as [b|]; [|discriminate].
      destruct (merge_same acc b) as [acc'|] eqn:E; intro H; destruct (IH _ _ H) as [H1 _].
      + rewrite (merge_same_len _ _ _ E) in H1. split; [exact H1|]. intros _.
        destruct acc as [|a0 acc0]; [simpl in E; discriminate | simpl in H1; lia].
      + rewrite app_length in H1. simpl in H1. split; lia.
  Qed.
  Lemma prune_nonempty a r : prune_subsumed (a :: r) <> [].
  Proof.
    unfold prune_subsumed. apply (fold_left_inv (fun l : list asr => l <> [])); [discriminate|].
    intros final x Hf _. destruct (absorb final x) as [f'|] eqn:E.
    - destruct (absorb_spec _ _ _ E) as [l1 [f [l2 [_ [H2 _]]]]]. subst f'. destruct l1; discriminate.
    - destruct final; discriminate.
  Qed.

  (* THE OTHER DIRECTION of the emptiness clause, for the model of the search *)
  Theorem raire_empty_not_possible fuel :
    raire fuel dfun cands p tot winner hint = Some [] -> possible cands p winner = false.
  Proof.
    unfold raire. fold nebs.
    destruct (le_lt_dec 2 (length cands)) as [Hl|Hl].
    2:{ rewrite (initial_small dfun cands p tot nebs winner Hnd Hl). rewrite search_nil. discriminate. }
    destruct initial_inv2 as [Hh [Hf [Hhj Hfj]]].
    pose proof (search_J fuel _ _ (-10 # 1)%Q Hh Hhj Hf Hfj) as Hs.
    destruct (search dfun cands p tot hint nebs fuel (fst (initial dfun cands p tot nebs winner))
                     (snd (initial dfun cands p tot nebs winner)) (-10 # 1)%Q) as [| |h fr] eqn:Es.
    - discriminate.
    - intros _. apply Wit_not_possible. exact Hs.
    - destruct Hs as [Hhj' [Hfj' [Hf' [Hw' Hhead]]]].
      destruct (dedup h fr []) as [l|] eqn:Ed.
      + intro H. exfalso. inversion H as [Hout].
        destruct Hhead as [x0 [r0 [Hfr _]]].
        destruct (dedup_len _ _ _ _ Ed) as [_ Hlen]. specialize (Hlen ltac:(rewrite Hfr; discriminate)).
        destruct l as [|a0 l0]; [simpl in Hlen; lia|].
        assert (Hin : In a0 (sorted_asr (a0 :: l0))) by (apply sorted_asr_in; left; reflexivity).
        destruct (sorted_asr (a0 :: l0)) as [|s0 sr]; [destruct Hin|].
        unfold out_of in Hout. apply map_eq_nil in Hout. exact (prune_nonempty s0 sr Hout).
      + intros _. apply Wit_not_possible.
        destruct (dedup_none _ _ _ Ed) as [x [Hx1 Hx2]]. eapply finished_none_wit; eauto.
  Qed.

End Complete2.

(* ---- C04's emptiness clause for the model of the search, both directions (fuel exhaustion = None excluded):
   the result is empty exactly when no set of true assertions can exclude every alternative winner *)
Theorem raire_model_empty_iff :
  forall fuel dfun cands p tot winner hint out,
    NoDup cands ->
    raire fuel dfun cands p tot winner hint = Some out ->
    (out = [] <-> possible cands p winner = false).
Proof.
  intros fuel dfun cands p tot winner hint out Hnd Hr. split.
  - intro He. subst out. eapply raire_empty_not_possible; eauto.
  - intro Hp. eapply raire_model_empty_when_impossible; eauto.
Qed.
Print Assumptions raire_model_empty_iff.
