(* NNM_machines.v — generic facts about the sequential machines of NNM.v:
   outputs are produced before the observation is consumed, hence predictable (C05) *)
From SV Require Import NNM.
Open Scope Q_scope.

Lemma mscan_length {St B} (out : St -> B) step s xs : length (mscan out step s xs) = length xs.
Proof. revert s; induction xs as [|x r IH]; intro s; simpl; auto. Qed.

Lemma mscan_app {St B} (out : St -> B) step s xs ys :
  mscan out step s (xs ++ ys) = mscan out step s xs ++ mscan out step (fold_left step xs s) ys.
Proof. revert s; induction xs as [|x r IH]; intro s; simpl; auto. now rewrite IH. Qed.

Lemma mscan_nth {St B} (out : St -> B) step s xs k :
  (k < length xs)%nat ->
  nth_error (mscan out step s xs) k = Some (out (fold_left step (firstn k xs) s)).
Proof.
  revert s k; induction xs as [|x r IH]; intros s k Hk; simpl in *; [lia|].
  destruct k as [|k]; simpl; auto. apply IH. lia.
Qed.

Lemma mscan_firstn {St B} (out : St -> B) step s xs k :
  firstn k (mscan out step s xs) = mscan out step s (firstn k xs).
Proof.
  revert s k; induction xs as [|x r IH]; intros s k; destruct k; simpl; auto. now rewrite IH.
Qed.

(* the j-th output depends only on the first j-1 observations *)
Theorem run_machine_predictable {B} (m : machine B) xs ys k :
  firstn k xs = firstn k ys -> (k < length xs)%nat -> (k < length ys)%nat ->
  nth_error (run_machine m xs) k = nth_error (run_machine m ys) k.
Proof.
  intros H Hx Hy. unfold run_machine. rewrite !mscan_nth by assumption. now rewrite H.
Qed.

Theorem run_machine_firstn {B} (m : machine B) xs k :
  firstn k (run_machine m xs) = run_machine m (firstn k xs).
Proof. apply mscan_firstn. Qed.

Lemma run_machine_length {B} (m : machine B) xs : length (run_machine m xs) = length xs.
Proof. apply mscan_length. Qed.

(* invariants of machine states: every output satisfies Q if Q follows from an invariant P preserved by steps on
   admissible observations *)
Lemma mscan_Forall {St B} (out : St -> B) step (P : St -> Prop) (A : Q -> Prop) (R : B -> Prop) :
  (forall s x, P s -> A x -> P (step s x)) ->
  (forall s, P s -> R (out s)) ->
  forall xs s, P s -> Forall A xs -> Forall R (mscan out step s xs).
Proof.
  intros Hstep Hout. induction xs as [|x r IH]; intros s Hs Hxs; simpl; constructor.
  - now apply Hout.
  - inversion Hxs; subst. apply IH; auto.
Qed.

(* pointwise relation between the outputs of two machines run on the same data *)
Lemma mscan_Forall2 {S1 S2 B1 B2} (o1 : S1 -> B1) st1 (o2 : S2 -> B2) st2
      (P : S1 -> S2 -> Prop) (A : Q -> Prop) (R : B1 -> B2 -> Prop) :
  (forall s1 s2 x, P s1 s2 -> A x -> P (st1 s1 x) (st2 s2 x)) ->
  (forall s1 s2, P s1 s2 -> R (o1 s1) (o2 s2)) ->
  forall xs s1 s2, P s1 s2 -> Forall A xs -> Forall2 R (mscan o1 st1 s1 xs) (mscan o2 st2 s2 xs).
Proof.
  intros Hstep Hout. induction xs as [|x r IH]; intros s1 s2 Hs Hxs; simpl; constructor.
  - now apply Hout.
  - inversion Hxs; subst. apply IH; auto.
Qed.
