(* Compare_proofs.v — lemmas about the model in Compare.v (properties C03 and C06).  All by induction over
   card lists of any length; no axioms. *)
From SV Require Import Compare.
From Coq Require Import Setoid Morphisms.
Open Scope Q_scope.

(* ------------------------------------------------------------------ finite sums over lists *)
Lemma qlen_cons {T} (x : T) l : qlen (x :: l) == qlen l + 1.
Proof.
  unfold qlen. simpl length. rewrite Nat2Z.inj_succ. unfold Z.succ. rewrite inject_Z_plus. reflexivity.
Qed.
Lemma qlen_nil {T} : qlen (@nil T) == 0.
Proof. reflexivity. Qed.
Lemma qlen_nonneg {T} (l : list T) : 0 <= qlen l.
Proof.
  unfold qlen. change 0 with (inject_Z 0). rewrite <- Zle_Qle. apply Nat2Z.is_nonneg.
Qed.
Lemma qlen_pos {T} (l : list T) : l <> [] -> 0 < qlen l.
Proof.
  destruct l as [|x l]; [congruence|]. intros _. rewrite qlen_cons. pose proof (qlen_nonneg l). lra.
Qed.
Lemma qlen_map {T U} (f : T -> U) l : qlen (map f l) = qlen l.
Proof. unfold qlen. now rewrite map_length. Qed.

Lemma qsum_cons x l : qsum (x :: l) = x + qsum l.
Proof. reflexivity. Qed.
Lemma qsum_app l m : qsum (l ++ m) == qsum l + qsum m.
Proof. induction l as [|x l IH]; simpl; [ring|]. rewrite IH. ring. Qed.
Lemma qsum_ext_in {T} (f g : T -> Q) l :
  (forall x, In x l -> f x == g x) -> qsum (map f l) == qsum (map g l).
Proof.
  induction l as [|x l IH]; intros H; simpl; [reflexivity|].
  rewrite (H x (or_introl eq_refl)), IH; [reflexivity|]. intros y Hy. apply H. now right.
Qed.
Lemma qsum_ext {T} (f g : T -> Q) l : (forall x, f x == g x) -> qsum (map f l) == qsum (map g l).
Proof. intros H. apply qsum_ext_in. intros; apply H. Qed.
Lemma qsum_add {T} (f g : T -> Q) l : qsum (map (fun x => f x + g x) l) == qsum (map f l) + qsum (map g l).
Proof. induction l as [|x l IH]; simpl; [ring|]. rewrite IH. ring. Qed.
Lemma qsum_scale {T} (k : Q) (f : T -> Q) l : qsum (map (fun x => k * f x) l) == k * qsum (map f l).
Proof. induction l as [|x l IH]; simpl; [ring|]. rewrite IH. ring. Qed.
Lemma qsum_zero {T} (l : list T) : qsum (map (fun _ => 0) l) == 0.
Proof. induction l as [|x l IH]; simpl; [reflexivity|]. rewrite IH. ring. Qed.
Lemma qsum_const {T} (k : Q) (l : list T) : qsum (map (fun _ => k) l) == qlen l * k.
Proof.
  induction l as [|x l IH]; [simpl map; rewrite qlen_nil; simpl; ring|].
  simpl map. rewrite qsum_cons, IH, qlen_cons. ring.
Qed.
Lemma qsum_filter {T} (P : T -> bool) (f : T -> Q) l :
  qsum (map f (filter P l)) == qsum (map (fun x => if P x then f x else 0) l).
Proof.
  induction l as [|x l IH]; simpl; [reflexivity|]. destruct (P x); simpl; rewrite IH; ring.
Qed.
Lemma qlen_filter {T} (P : T -> bool) (l : list T) :
  qlen (filter P l) == qsum (map (fun x => if P x then 1 else 0) l).
Proof.
  induction l as [|x l IH]; [reflexivity|]. simpl filter. simpl map. rewrite qsum_cons.
  destruct (P x); [rewrite qlen_cons|]; rewrite IH; ring.
Qed.
Lemma qsum_swap {T U} (f : T -> U -> Q) (l1 : list T) (l2 : list U) :
  qsum (map (fun c => qsum (map (fun d => f c d) l2)) l1) ==
  qsum (map (fun d => qsum (map (fun c => f c d) l1)) l2).
Proof.
  induction l1 as [|c l1 IH]; simpl.
  - now rewrite qsum_zero.
  - rewrite IH. now rewrite <- qsum_add.
Qed.
Lemma qsum_bounds {T} (f : T -> Q) (lo hi : Q) l :
  (forall x, In x l -> lo <= f x <= hi) -> qlen l * lo <= qsum (map f l) <= qlen l * hi.
Proof.
  induction l as [|x l IH]; intros H.
  - simpl. rewrite qlen_nil. lra.
  - simpl map. rewrite qsum_cons, qlen_cons.
    destruct (H x (or_introl eq_refl)) as [H1 H2].
    destruct IH as [I1 I2]; [intros y Hy; apply H; now right|]. lra.
Qed.

(* The grouping lemma behind ONEAudit: replacing every element by the mean of its group keeps the total. *)
Lemma group_mean_sum {T} (key : T -> Z) (f : T -> Q) (P : list T) :
  qsum (map (fun c => qsum (map f (filter (fun d => (key d =? key c)%Z) P))
                      / qlen (filter (fun d => (key d =? key c)%Z) P)) P)
  == qsum (map f P).
Proof.
  set (N := fun c => qlen (filter (fun d => (key d =? key c)%Z) P)).
  assert (HN : forall c, In c P -> 0 < N c).
  { intros c Hc. apply qlen_pos. intro E.
    assert (Hin : In c (filter (fun d => (key d =? key c)%Z) P)) by (apply filter_In; split; [exact Hc|apply Z.eqb_refl]).
    rewrite E in Hin. exact Hin. }
  assert (HNeq : forall c d, key d = key c -> N c == N d).
  { intros c d E. unfold N. rewrite (filter_ext (fun e => (key e =? key c)%Z) (fun e => (key e =? key d)%Z)); [reflexivity|].
    intros e. now rewrite E. }
  (* step 1: each term as an inner sum *)
  transitivity (qsum (map (fun c => qsum (map (fun d => if (key d =? key c)%Z then f d / N d else 0) P)) P)).
  { apply qsum_ext_in. intros c Hc. fold (N c).
    rewrite qsum_filter. unfold Qdiv. rewrite Qmult_comm, <- qsum_scale.
    apply qsum_ext. intros d. destruct (key d =? key c)%Z eqn:E.
    - apply Z.eqb_eq in E. rewrite (HNeq c d E). ring.
    - ring. }
  rewrite qsum_swap.
  apply qsum_ext_in. intros d Hd.
  transitivity (qsum (map (fun c => (f d / N d) * (if (key c =? key d)%Z then 1 else 0)) P)).
  { apply qsum_ext. intros c. rewrite (Z.eqb_sym (key d) (key c)). destruct (key c =? key d)%Z; ring. }
  rewrite qsum_scale, <- qlen_filter. fold (N d). field.
  pose proof (HN d Hd). lra.
Qed.

(* ------------------------------------------------------------------ small facts about Xq arithmetic on finite values *)
Lemma xdiv_fin a b : ~ b == 0 -> xdiv (Fin a) (Fin b) = Fin (a / b).
Proof. intros H. simpl. apply Qeq_bool_false in H. now rewrite H. Qed.
Lemma np_mean_fin l : l <> [] -> np_mean l = Fin (qsum l / qlen l).
Proof. destruct l; [congruence|reflexivity]. Qed.
Lemma memz_In k l : memz k l = true <-> In k l.
Proof.
  unfold memz. rewrite existsb_exists. split.
  - intros [x [Hx E]]. apply Z.eqb_eq in E. now subst.
  - intros H. exists k. split; [exact H|apply Z.eqb_refl].
Qed.
Lemma has_contest_In k c : has_contest k c = true <-> In k (c_contests c).
Proof. apply memz_In. Qed.
Lemma lookup_map_key {V} (g : Z -> V) k l : memz k l = true -> lookup k (map (fun p => (p, g p)) l) = Some (g k).
Proof.
  induction l as [|x l IH]; simpl; [discriminate|].
  destruct (k =? x)%Z eqn:E; [apply Z.eqb_eq in E; now subst|]. simpl. exact IH.
Qed.
Lemma filter_and3 {T} (f g h : T -> bool) l :
  filter (fun c => f c && g c && h c) l = filter h (filter g (filter f l)).
Proof.
  induction l as [|x l IH]; simpl; [reflexivity|].
  destruct (f x); simpl; [|exact IH]. destruct (g x); simpl; [|exact IH]. destruct (h x); simpl; now rewrite IH.
Qed.
Lemma filter_map_comm {T U} (P : U -> bool) (f : T -> U) l :
  filter P (map f l) = map f (filter (fun x => P (f x)) l).
Proof. induction l as [|x l IH]; simpl; [reflexivity|]. destruct (P (f x)); simpl; now rewrite IH. Qed.

(* ------------------------------------------------------------------ C03: the overstatement reduction *)
Definition mean (l : list Q) : Q := qsum l / qlen l.
(* the assorter applied to the manual record, an unfindable card counted as 0 and, under style, a record lacking
   the contest counted as 0 *)
Definition abar (A : card -> Q) (cid : Z) (use_style : bool) (mvr : card) : Q :=
  if c_phantom mvr || (use_style && negb (has_contest cid mvr)) then 0 else A mvr.
(* cards under audit: pairs (mvr, cvr) whose CVR passes the style filter *)
Definition in_scope (cid : Z) (use_style : bool) (p : card * card) : bool := style_filter use_style cid (snd p).
(* decidable hypotheses *)
Definition phantoms_half (A : card -> Q) (cs : list card) : bool :=      (* phantom CVRs outside pools assort to 1/2 *)
  forallb (fun c => implb (c_phantom c && negb (c_pool c)) (Qeq_bool (A c) (1 # 2))) cs.
Definition phantoms_half_all (A : card -> Q) (cs : list card) : bool :=
  forallb (fun c => implb (c_phantom c) (Qeq_bool (A c) (1 # 2))) cs.
Definition range_ok (A : card -> Q) (ua : Q) (cs : list card) : bool :=
  forallb (fun c => Qle_bool 0 (A c) && Qle_bool (A c) ua) cs.

Section C03.
  Variable A : card -> Q.
  Variables (cid : Z) (use_style : bool) (ua : Q).
  Hypothesis ua_pos : 0 < ua.

  Definition Bq (v o : Q) : Q := (1 - o / ua) / (2 - v / ua).
  Definition own_side (c : card) : Q := b2q (c_phantom c) / 2 + (1 - b2q (c_phantom c)) * A c.
  Definition cvr_side (cvrs : list card) (c : card) : Q :=
    if c_pool c then qsum (map A (pool_members cid use_style (c_tp c) cvrs))
                     / qlen (map A (pool_members cid use_style (c_tp c) cvrs))
    else own_side c.

  Lemma range_ok_In cs c : range_ok A ua cs = true -> In c cs -> 0 <= A c <= ua.
  Proof.
    unfold range_ok. rewrite forallb_forall. intros H Hc. specialize (H c Hc).
    apply andb_true_iff in H. destruct H as [H1 H2]. apply Qle_bool_iff in H1, H2. split; assumption.
  Qed.

  Lemma own_side_half c : implb (c_phantom c) (Qeq_bool (A c) (1 # 2)) = true -> own_side c == A c.
  Proof.
    unfold own_side. destruct (c_phantom c); unfold b2q; cbn [implb]; intros H.
    - apply Qeq_bool_iff in H. rewrite H. field.
    - field.
  Qed.

  (* key lemma: over the cards under audit the CVR-side scores add up to the assorter total *)
  Lemma cvr_side_sum cvrs :
    let L := filter (style_filter use_style cid) cvrs in
    phantoms_half A L = true -> qsum (map (cvr_side cvrs) L) == qsum (map A L).
  Proof.
    intros L Hph. set (P := filter c_pool L).
    assert (Hm : forall p, pool_members cid use_style p cvrs = filter (fun c => (c_tp c =? p)%Z) P).
    { intros p. unfold pool_members, P, L. apply filter_and3. }
    set (M := fun c : card => qsum (map A (filter (fun d => (c_tp d =? c_tp c)%Z) P))
                            / qlen (filter (fun d => (c_tp d =? c_tp c)%Z) P)).
    transitivity (qsum (map (fun c => (if c_pool c then M c else 0) + (if c_pool c then 0 else A c)) L)).
    { apply qsum_ext_in. intros c Hc. unfold cvr_side. rewrite Hm, qlen_map. fold (M c).
      destruct (c_pool c) eqn:Ep; [ring|].
      unfold phantoms_half in Hph. rewrite forallb_forall in Hph. specialize (Hph c Hc). rewrite Ep in Hph.
      rewrite andb_true_r in Hph. rewrite (own_side_half c Hph). ring. }
    rewrite qsum_add.
    assert (E1 : qsum (map (fun c => if c_pool c then M c else 0) L) == qsum (map M P)).
    { unfold P. symmetry. apply qsum_filter. }
    rewrite E1. unfold M. rewrite (group_mean_sum c_tp A P). unfold P. rewrite qsum_filter, <- qsum_add.
    apply qsum_ext. intros c. destruct (c_pool c); ring.
  Qed.

  Lemma own_side_sum L : phantoms_half_all A L = true -> qsum (map own_side L) == qsum (map A L).
  Proof.
    intros H. apply qsum_ext_in. intros c Hc. apply own_side_half.
    unfold phantoms_half_all in H. rewrite forallb_forall in H. now apply H.
  Qed.

  (* the model's overstatement assorter on a card under audit, in closed form *)
  Lemma style_filter_no_raise c : style_filter use_style cid c = true -> use_style && negb (has_contest cid c) = false.
  Proof. unfold style_filter. destruct use_style; simpl; [intros ->; reflexivity|reflexivity]. Qed.

  Lemma overstatement_pool_means cvrs arg means mvr cvr :
    set_tally_pool_means A cid cvrs arg use_style = Ok means ->
    In cvr cvrs -> style_filter use_style cid cvr = true ->
    overstatement A cid (Some means) mvr cvr use_style = Ok (Fin (cvr_side cvrs cvr - abar A cid use_style mvr)).
  Proof.
    intros Hm Hin Hs. unfold overstatement. rewrite (style_filter_no_raise _ Hs).
    fold (abar A cid use_style mvr). unfold cvr_side, own_side.
    destruct (c_pool cvr) eqn:Ep; [|reflexivity].
    unfold set_tally_pool_means in Hm.
    set (pools := match arg with Some (p :: r) => dedup (p :: r) | _ => pooled_labels cvrs end) in Hm.
    destruct (forallb _ _) eqn:Ef in Hm; [|discriminate]. injection Hm as <-.
    rewrite forallb_forall in Ef.
    assert (Hk : memz (c_tp cvr) pools = true).
    { apply Ef. apply filter_In. split; [exact Hin|]. now rewrite Hs, Ep. }
    rewrite (lookup_map_key (pool_mean A cid use_style cvrs) _ _ Hk).
    unfold pool_mean. rewrite np_mean_fin; [reflexivity|].
    assert (Hmem : In cvr (pool_members cid use_style (c_tp cvr) cvrs)).
    { unfold pool_members. apply filter_In. split; [exact Hin|]. now rewrite Hs, Ep, Z.eqb_refl. }
    intro E. apply (in_map A) in Hmem. rewrite E in Hmem. exact Hmem.
  Qed.

  Lemma overstatement_no_means mvr cvr :
    style_filter use_style cid cvr = true ->
    overstatement A cid None mvr cvr use_style = Ok (Fin (own_side cvr - abar A cid use_style mvr)).
  Proof.
    intros Hs. unfold overstatement. rewrite (style_filter_no_raise _ Hs).
    fold (abar A cid use_style mvr). unfold own_side. destruct (c_pool cvr); reflexivity.
  Qed.

  Lemma overstatement_assorter_fin means v mvr cvr o :
    ~ 2 - v / ua == 0 ->
    overstatement A cid means mvr cvr use_style = Ok (Fin o) ->
    overstatement_assorter A cid means (Fin v) ua mvr cvr use_style = Ok (Fin (Bq v o)).
  Proof.
    intros Hd Ho. unfold overstatement_assorter. rewrite Ho.
    assert (Hu : ~ ua == 0) by lra.
    rewrite (xdiv_fin o ua Hu), (xdiv_fin v ua Hu).
    change (xsub (Fin 1) (Fin (o / ua))) with (Fin (1 - o / ua)).
    change (xsub (Fin 2) (Fin (v / ua))) with (Fin (2 - v / ua)).
    rewrite (xdiv_fin _ _ Hd). reflexivity.
  Qed.

  (* algebra: sum of the B values *)
  Lemma sumB {T} (g a : T -> Q) (v : Q) (S : list T) :
    ~ 2 - v / ua == 0 ->
    qsum (map (fun p => Bq v (g p - a p)) S)
    == (qlen S - (qsum (map g S) - qsum (map a S)) / ua) / (2 - v / ua).
  Proof.
    intros Hd. assert (Hu : ~ ua == 0) by lra.
    assert (Hd2 : ~ 2 * ua - v == 0).
    { intro E. apply Hd. assert (E2 : 2 - v / ua == (2 * ua - v) / ua) by (field; exact Hu).
      rewrite E2, E. unfold Qdiv. ring. }
    induction S as [|p S IH].
    - simpl. rewrite qlen_nil. field. repeat split; assumption.
    - simpl map. rewrite !qsum_cons, qlen_cons, IH. unfold Bq. field. repeat split; assumption.
  Qed.

  Lemma denom_pos v : v < 2 * ua -> 0 < 2 - v / ua.
  Proof.
    intros H. assert (E : 2 - v / ua == (2 * ua - v) / ua) by (field; lra).
    rewrite E. apply Qlt_shift_div_l; [exact ua_pos|]. lra.
  Qed.

  Lemma identity_core (S : list (card * card)) (g : card -> Q) (v : Q) :
    S <> [] -> v < 2 * ua ->
    v == 2 * (qsum (map A (map snd S)) / qlen S) - 1 ->
    qsum (map g (map snd S)) == qsum (map A (map snd S)) ->
    let bs := map (fun p => Bq v (g (snd p) - abar A cid use_style (fst p))) S in
    mean bs - (1 # 2) == (2 * mean (map (fun p => abar A cid use_style (fst p)) S) - 1) / (2 * (2 * ua - v)).
  Proof.
    intros Hne Hv Hvd Hg bs.
    pose proof (qlen_pos S Hne) as Hn. pose proof (denom_pos v Hv) as Hd.
    assert (Hd' : ~ 2 - v / ua == 0) by lra.
    unfold mean, bs. rewrite !qlen_map.
    rewrite (sumB (fun p => g (snd p)) (fun p => abar A cid use_style (fst p)) v S Hd').
    assert (EG : qsum (map (fun p : card * card => g (snd p)) S) == qsum (map g (map snd S))) by (now rewrite map_map).
    rewrite EG, Hg.
    set (SA := qsum (map A (map snd S))) in *. set (AB := qsum (map (fun p => abar A cid use_style (fst p)) S)).
    set (n := qlen S) in *.
    assert (ESA : SA == n * (v + 1) / 2) by (rewrite Hvd; field; lra).
    rewrite ESA. field. repeat split; lra.
  Qed.

  Lemma iff_core (D x y : Q) :
    0 < D -> x - (1 # 2) == (2 * y - 1) / (2 * D) -> ((1 # 2) < x <-> (1 # 2) < y).
  Proof.
    intros HD E. assert (H2D : 0 < 2 * D) by lra. split; intros H.
    - destruct (Qlt_le_dec (1 # 2) y) as [Hy|Hy]; [exact Hy|exfalso].
      assert (Hq : (2 * y - 1) / (2 * D) <= 0) by (apply Qle_shift_div_r; [exact H2D|lra]). lra.
    - assert (Hq : 0 < (2 * y - 1) / (2 * D)) by (apply Qlt_shift_div_l; [exact H2D|lra]). lra.
  Qed.

  Lemma margin_fin (L : list card) :
    L <> [] -> margin_of_mean (np_mean (map A L)) = Fin (2 * (qsum (map A L) / qlen (map A L)) - 1).
  Proof.
    intros H. rewrite np_mean_fin; [reflexivity|]. destruct L; [congruence|discriminate].
  Qed.

  Lemma margin_below (L : list card) :
    L <> [] -> range_ok A ua L = true -> 2 * (qsum (map A L) / qlen L) - 1 < 2 * ua.
  Proof.
    intros Hne Hr. pose proof (qlen_pos L Hne) as Hn.
    destruct (qsum_bounds A 0 ua L (fun x Hx => range_ok_In L x Hr Hx)) as [_ Hhi].
    assert (qsum (map A L) / qlen L <= ua) by (apply Qle_shift_div_r; [exact Hn|lra]). lra.
  Qed.

  (* C03 with pool means computed by set_tally_pool_means from the same CVRs and style flag *)
  Lemma C03_identity_lemma (pairs : list (card * card)) (arg : option (list Z)) (means : list (Z * Xq)) :
    let cvrs := map snd pairs in
    let scope := filter (in_scope cid use_style) pairs in
    scope <> [] ->
    phantoms_half A (map snd scope) = true ->
    range_ok A ua (map snd scope) = true ->
    set_tally_pool_means A cid cvrs arg use_style = Ok means ->
    exists v bs,
      margin_of_mean (assorter_mean A cid cvrs use_style) = Fin v /\ v < 2 * ua /\
      map (fun p => overstatement_assorter A cid (Some means) (Fin v) ua (fst p) (snd p) use_style) scope
        = map (fun b => Ok (Fin b)) bs /\
      mean bs - (1 # 2) == (2 * mean (map (fun p => abar A cid use_style (fst p)) scope) - 1) / (2 * (2 * ua - v)) /\
      ((1 # 2) < mean bs <-> (1 # 2) < mean (map (fun p => abar A cid use_style (fst p)) scope)).
  Proof.
    intros cvrs scope Hne Hph Hr Hm.
    assert (HL : filter (style_filter use_style cid) cvrs = map snd scope).
    { exact (filter_map_comm (style_filter use_style cid) snd pairs). }
    assert (HLne : map snd scope <> []) by (destruct scope; [congruence|discriminate]).
    set (v := 2 * (qsum (map A (map snd scope)) / qlen (map A (map snd scope))) - 1).
    set (bs := map (fun p => Bq v (cvr_side cvrs (snd p) - abar A cid use_style (fst p))) scope).
    assert (Hv : v < 2 * ua).
    { unfold v. rewrite qlen_map. apply margin_below; assumption. }
    pose proof (denom_pos v Hv) as Hd. assert (Hd' : ~ 2 - v / ua == 0) by lra.
    exists v, bs. split; [|split; [exact Hv|split; [|]]].
    - unfold assorter_mean. rewrite HL. apply margin_fin. exact HLne.
    - unfold bs. rewrite map_map. apply map_ext_in. intros [mvr cvr] Hp. simpl fst. simpl snd.
      apply filter_In in Hp. destruct Hp as [Hp Hs]. unfold in_scope in Hs. simpl in Hs.
      apply overstatement_assorter_fin; [exact Hd'|].
      apply (overstatement_pool_means cvrs arg means); [exact Hm| |exact Hs].
      unfold cvrs. change cvr with (snd (mvr, cvr)). now apply in_map.
    - assert (Hid : mean bs - (1 # 2) ==
                    (2 * mean (map (fun p => abar A cid use_style (fst p)) scope) - 1) / (2 * (2 * ua - v))).
      { apply (identity_core scope (cvr_side cvrs) v Hne Hv).
        - unfold v. now rewrite !qlen_map.
        - rewrite <- HL. apply cvr_side_sum. rewrite HL. exact Hph. }
      split; [exact Hid|]. apply (iff_core (2 * ua - v)); [lra|exact Hid].
  Qed.

  (* C03 when tally_pool_means was never set: every CVR is scored by itself (card-comparison without pools) *)
  Lemma C03_identity_no_means_lemma (pairs : list (card * card)) :
    let cvrs := map snd pairs in
    let scope := filter (in_scope cid use_style) pairs in
    scope <> [] ->
    phantoms_half_all A (map snd scope) = true ->
    range_ok A ua (map snd scope) = true ->
    exists v bs,
      margin_of_mean (assorter_mean A cid cvrs use_style) = Fin v /\ v < 2 * ua /\
      map (fun p => overstatement_assorter A cid None (Fin v) ua (fst p) (snd p) use_style) scope
        = map (fun b => Ok (Fin b)) bs /\
      mean bs - (1 # 2) == (2 * mean (map (fun p => abar A cid use_style (fst p)) scope) - 1) / (2 * (2 * ua - v)) /\
      ((1 # 2) < mean bs <-> (1 # 2) < mean (map (fun p => abar A cid use_style (fst p)) scope)).
  Proof.
    intros cvrs scope Hne Hph Hr.
    assert (HL : filter (style_filter use_style cid) cvrs = map snd scope).
    { exact (filter_map_comm (style_filter use_style cid) snd pairs). }
    assert (HLne : map snd scope <> []) by (destruct scope; [congruence|discriminate]).
    set (v := 2 * (qsum (map A (map snd scope)) / qlen (map A (map snd scope))) - 1).
    set (bs := map (fun p => Bq v (own_side (snd p) - abar A cid use_style (fst p))) scope).
    assert (Hv : v < 2 * ua).
    { unfold v. rewrite qlen_map. apply margin_below; assumption. }
    pose proof (denom_pos v Hv) as Hd. assert (Hd' : ~ 2 - v / ua == 0) by lra.
    exists v, bs. split; [|split; [exact Hv|split; [|]]].
    - unfold assorter_mean. rewrite HL. apply margin_fin. exact HLne.
    - unfold bs. rewrite map_map. apply map_ext_in. intros [mvr cvr] Hp. simpl fst. simpl snd.
      apply filter_In in Hp. destruct Hp as [Hp Hs]. unfold in_scope in Hs. simpl in Hs.
      apply overstatement_assorter_fin; [exact Hd'|]. now apply overstatement_no_means.
    - assert (Hid : mean bs - (1 # 2) ==
                    (2 * mean (map (fun p => abar A cid use_style (fst p)) scope) - 1) / (2 * (2 * ua - v))).
      { apply (identity_core scope own_side v Hne Hv).
        - unfold v. now rewrite !qlen_map.
        - now apply own_side_sum. }
      split; [exact Hid|]. apply (iff_core (2 * ua - v)); [lra|exact Hid].
  Qed.
End C03.

(* ------------------------------------------------------------------ C03: every pooled card lists every contest of its pool *)
Lemma dedup_In k l : In k (dedup l) <-> In k l.
Proof. unfold dedup. apply nodup_In. Qed.
Lemma union_l k a b : In k a -> In k (union a b).
Proof. intros H. unfold union. apply in_or_app. now left. Qed.
Lemma union_r k a b : In k b -> In k (union a b).
Proof.
  intros H. unfold union. apply in_or_app. destruct (memz k a) eqn:E.
  - left. now apply memz_In.
  - right. apply (proj2 (dedup_In _ _)). apply filter_In. split; [exact H|]. now rewrite E.
Qed.
Lemma union_inv k a b : In k (union a b) -> In k a \/ In k b.
Proof.
  unfold union. intros H. apply in_app_or in H. destruct H as [H|H]; [now left|].
  right. apply (proj1 (dedup_In _ _)) in H. apply filter_In in H. tauto.
Qed.
Lemma union_new k a b : In k (union a b) -> ~ In k a -> In k b.
Proof. intros H N. destruct (union_inv k a b H); tauto. Qed.

Lemma upd_mono p q cs acc s k :
  lookup p acc = Some s -> In k s -> exists s', lookup p (upd q cs acc) = Some s' /\ In k s'.
Proof.
  induction acc as [|[k' s0] r IH]; simpl; [discriminate|]. intros H Hk.
  destruct (p =? k')%Z eqn:E1.
  - injection H as <-. destruct (q =? k')%Z eqn:E2; simpl; rewrite E1.
    + exists (union s0 cs). split; [reflexivity|now apply union_l].
    + exists s0. split; [reflexivity|exact Hk].
  - destruct (q =? k')%Z eqn:E2; simpl; rewrite E1.
    + exists s. split; assumption.
    + now apply IH.
Qed.
Lemma upd_adds q cs acc k : In k cs -> exists s', lookup q (upd q cs acc) = Some s' /\ In k s'.
Proof.
  intros Hk. induction acc as [|[k' s0] r IH]; simpl.
  - rewrite Z.eqb_refl. exists (union [] cs). split; [reflexivity|now apply union_r].
  - destruct (q =? k')%Z eqn:E; simpl; rewrite E.
    + exists (union s0 cs). split; [reflexivity|now apply union_r].
    + exact IH.
Qed.
Lemma upd_origin p q cs acc s k :
  lookup p (upd q cs acc) = Some s -> In k s ->
  (exists s0, lookup p acc = Some s0 /\ In k s0) \/ (p = q /\ In k cs).
Proof.
  induction acc as [|[k' s0] r IH]; simpl.
  - destruct (p =? q)%Z eqn:E; [|discriminate]. intros H Hk. injection H as <-. right.
    apply Z.eqb_eq in E. split; [exact E|]. apply (union_new k [] cs Hk). intros [].
  - destruct (q =? k')%Z eqn:E2; simpl; destruct (p =? k')%Z eqn:E1; intros H Hk.
    + injection H as <-. destruct (union_inv _ _ _ Hk) as [Hl|Hr].
      * left. exists s0. split; [reflexivity|exact Hl].
      * right. apply Z.eqb_eq in E1, E2. split; [congruence|exact Hr].
    + left. exists s. split; assumption.
    + left. exists s. split; assumption.
    + now apply IH.
Qed.

Lemma pcf_mono cvrs : forall acc p s k,
  lookup p acc = Some s -> In k s -> exists s', lookup p (pool_contests_from acc cvrs) = Some s' /\ In k s'.
Proof.
  induction cvrs as [|c r IH]; simpl; intros acc p s k H Hk; [eauto|].
  destruct (c_pool c).
  - destruct (upd_mono p (c_tp c) (c_contests c) acc s k H Hk) as [s1 [H1 H2]]. now apply (IH _ p s1 k).
  - now apply (IH _ p s k).
Qed.
Lemma pcf_adds cvrs : forall acc d k,
  In d cvrs -> c_pool d = true -> In k (c_contests d) ->
  exists s, lookup (c_tp d) (pool_contests_from acc cvrs) = Some s /\ In k s.
Proof.
  induction cvrs as [|c r IH]; simpl; intros acc d k Hd Hp Hk; [contradiction|].
  destruct Hd as [->|Hd].
  - rewrite Hp. destruct (upd_adds (c_tp d) (c_contests d) acc k Hk) as [s1 [H1 H2]].
    now apply (pcf_mono r _ (c_tp d) s1 k).
  - now apply IH.
Qed.
Lemma pcf_origin cvrs : forall acc p s k,
  lookup p (pool_contests_from acc cvrs) = Some s -> In k s ->
  (exists s0, lookup p acc = Some s0 /\ In k s0) \/
  (exists d, In d cvrs /\ c_pool d = true /\ c_tp d = p /\ In k (c_contests d)).
Proof.
  induction cvrs as [|c r IH]; simpl; intros acc p s k H Hk.
  - left. eauto.
  - destruct (IH _ p s k H Hk) as [[s0 [H0 Hk0]]|[d [Hd [Hp [Ht Hc]]]]].
    + destruct (c_pool c) eqn:Ep.
      * destruct (upd_origin p (c_tp c) (c_contests c) acc s0 k H0 Hk0) as [Hl|[E Hc]].
        -- now left.
        -- right. exists c. repeat split; auto.
      * left. eauto.
    + right. exists d. repeat split; auto.
Qed.

Lemma Forall2_map_r {T U} (R : T -> U -> Prop) (f : T -> U) l :
  (forall x, In x l -> R x (f x)) -> Forall2 R l (map f l).
Proof.
  induction l as [|x l IH]; intros H; simpl; constructor.
  - apply H. now left.
  - apply IH. intros y Hy. apply H. now right.
Qed.

Lemma Forall2_map_l {T U V} (f : T -> U) (R : U -> V -> Prop) l : forall d,
  Forall2 R (map f l) d -> Forall2 (fun x y => R (f x) y) l d.
Proof.
  induction l as [|x l IH]; intros d H; simpl in H; inversion H; subst; constructor; auto.
Qed.

Definition same_but_contests (c c' : card) : Prop :=
  c_phantom c' = c_phantom c /\ c_pool c' = c_pool c /\ c_tp c' = c_tp c /\ c_snum c' = c_snum c /\ c_votes c' = c_votes c.

Lemma C03_pool_contests_lemma (cvrs : list card) :
  let r := add_pool_contests cvrs (pool_contests cvrs) in
  (forall c' d k, In c' (fst r) -> c_pool c' = true ->
                  In d cvrs -> c_pool d = true -> c_tp d = c_tp c' -> has_contest k d = true ->
                  has_contest k c' = true)
  /\ Forall2 (fun c c' =>
                same_but_contests c c' /\
                exists extra, c_contests c' = c_contests c ++ extra /\
                              (c_pool c = false -> extra = []) /\
                              forall k, In k extra ->
                                        ~ In k (c_contests c) /\
                                        exists d, In d cvrs /\ c_pool d = true /\ c_tp d = c_tp c /\ has_contest k d = true)
             cvrs (fst r).
Proof.
  intros r.
  assert (Er : fst r = map (fun c => fst (apc_one (pool_contests cvrs) c)) cvrs).
  { unfold r, add_pool_contests. simpl. now rewrite map_map. }
  assert (Hone : forall c, In c cvrs ->
     let c' := fst (apc_one (pool_contests cvrs) c) in
     same_but_contests c c' /\
     (exists extra, c_contests c' = c_contests c ++ extra /\ (c_pool c = false -> extra = []) /\
        forall k, In k extra -> ~ In k (c_contests c) /\
                  exists d, In d cvrs /\ c_pool d = true /\ c_tp d = c_tp c /\ has_contest k d = true) /\
     (c_pool c = true -> forall d k, In d cvrs -> c_pool d = true -> c_tp d = c_tp c -> has_contest k d = true ->
                         has_contest k c' = true)).
  { intros c Hc. unfold apc_one. destruct (c_pool c) eqn:Ep.
    - destruct (lookup (c_tp c) (pool_contests cvrs)) as [s|] eqn:El.
      + simpl. split; [repeat split|split].
        * exists (dedup (filter (fun k => negb (has_contest k c)) s)). split; [reflexivity|]. split; [discriminate|].
          intros k Hk. apply (proj1 (dedup_In _ _)) in Hk. apply filter_In in Hk. destruct Hk as [Hks Hn].
          split.
          -- intro Hin. apply has_contest_In in Hin. rewrite Hin in Hn. discriminate.
          -- destruct (pcf_origin cvrs [] (c_tp c) s k El Hks) as [[s0 [H0 _]]|[d [Hd [Hp [Ht Hk']]]]]; [discriminate|].
             exists d. repeat split; auto. now apply has_contest_In.
        * intros _ d k Hd Hp Ht Hk. apply has_contest_In in Hk. apply has_contest_In. simpl.
          destruct (pcf_adds cvrs [] d k Hd Hp Hk) as [s1 [H1 H2]]. unfold pool_contests in El.
          rewrite Ht, El in H1. injection H1 as <-.
          apply in_or_app. destruct (has_contest k c) eqn:Eh.
          -- left. now apply has_contest_In.
          -- right. apply (proj2 (dedup_In _ _)). apply filter_In. split; [exact H2|]. now rewrite Eh.
      + (* impossible: the card itself makes its label a key; still, nothing changes *)
        simpl. split; [repeat split|split].
        * exists []. split; [now rewrite app_nil_r|]. split; [reflexivity|]. intros k [].
        * intros _ d k Hd Hp Ht Hk. apply has_contest_In in Hk.
          destruct (pcf_adds cvrs [] d k Hd Hp Hk) as [s1 [H1 _]]. unfold pool_contests in El.
          rewrite Ht, El in H1. discriminate.
    - simpl. split; [repeat split|split].
      + exists []. split; [now rewrite app_nil_r|]. split; [reflexivity|]. intros k [].
      + discriminate. }
  split.
  - intros c' d k Hc' Hp' Hd Hp Ht Hk. rewrite Er in Hc'. apply in_map_iff in Hc'. destruct Hc' as [c [<- Hc]].
    destruct (Hone c Hc) as [[_ [Hpool [Htp _]]] [_ Hall]].
    apply (Hall (eq_trans (eq_sym Hpool) Hp') d k Hd Hp); [|exact Hk]. now rewrite Ht, Htp.
  - rewrite Er. apply Forall2_map_r. intros c Hc. destruct (Hone c Hc) as [H1 [H2 _]]. split; assumption.
Qed.

(* ------------------------------------------------------------------ C06: data within the bound *)
(* every pool mean stored with the assorter is a number in [0, ua] *)
Definition means_ok (ua : Q) (means : option (list (Z * Xq))) : bool :=
  match means with
  | None => true
  | Some ms => forallb (fun kv => match snd kv with Fin q => Qle_bool 0 q && Qle_bool q ua | _ => false end) ms
  end.
Definition in_range (u : Q) (x : Xq) : Prop := exists q, x = Fin q /\ 0 <= q <= u.

Lemma lookup_In {V} k (l : list (Z * V)) v : lookup k l = Some v -> In (k, v) l.
Proof.
  induction l as [|[k' v'] r IH]; simpl; [discriminate|].
  destruct (k =? k')%Z eqn:E; intros H.
  - injection H as <-. apply Z.eqb_eq in E. subst. now left.
  - right. now apply IH.
Qed.

Lemma collect_ok {T} (l : list (res T)) d : collect l = Ok d -> Forall2 (fun r x => r = Ok x) l d.
Proof.
  revert d. induction l as [|r l IH]; simpl; intros d H.
  - injection H as <-. constructor.
  - destruct r as [x|e]; [|discriminate]. destruct (collect l) as [xs|e]; [|discriminate].
    injection H as <-. constructor; [reflexivity|now apply IH].
Qed.
Lemma collect_raise {T} (l : list (res T)) e : collect l = Raise e -> In (Raise e) l.
Proof.
  induction l as [|r l IH]; simpl; [discriminate|].
  destruct r as [x|e']; intros H.
  - destruct (collect l) as [xs|e'']; [discriminate|]. injection H as ->. right. now apply IH.
  - injection H as ->. now left.
Qed.

Section C06.
  Variable A : card -> Q.
  Variables (cid : Z) (ua : Q).
  Hypothesis ua_half : (1 # 2) <= ua.

  Lemma overstatement_range means mvr cvr use_style o :
    0 <= A mvr <= ua -> 0 <= A cvr <= ua -> means_ok ua means = true ->
    overstatement A cid means mvr cvr use_style = Ok o ->
    exists q, o = Fin q /\ - ua <= q <= ua.
  Proof.
    intros Hm Hc Hok. unfold overstatement.
    destruct (use_style && negb (has_contest cid cvr)); [discriminate|].
    set (ma := if c_phantom mvr || (use_style && negb (has_contest cid mvr)) then 0 else A mvr).
    assert (Hma : 0 <= ma <= ua) by (unfold ma; destruct (c_phantom mvr || _); lra).
    destruct (c_pool cvr).
    - destruct means as [ms|].
      + destruct (lookup (c_tp cvr) ms) as [m|] eqn:El; [|discriminate]. intros H. injection H as <-.
        apply lookup_In in El. simpl in Hok. rewrite forallb_forall in Hok. specialize (Hok _ El). simpl in Hok.
        destruct m as [q| | |]; try discriminate. apply andb_true_iff in Hok. destruct Hok as [H1 H2].
        apply Qle_bool_iff in H1, H2. exists (q - ma). split; [reflexivity|lra].
      + intros H. injection H as <-. eexists. split; [reflexivity|].
        destruct (c_phantom cvr); unfold b2q.
        * assert (E : 1 / 2 + (1 - 1) * A cvr - ma == (1 # 2) - ma) by field. rewrite E. lra.
        * assert (E : 0 / 2 + (1 - 0) * A cvr - ma == A cvr - ma) by field. rewrite E. lra.
    - intros H. injection H as <-. eexists. split; [reflexivity|].
      destruct (c_phantom cvr); unfold b2q.
      * assert (E : 1 / 2 + (1 - 1) * A cvr - ma == (1 # 2) - ma) by field. rewrite E. lra.
      * assert (E : 0 / 2 + (1 - 0) * A cvr - ma == A cvr - ma) by field. rewrite E. lra.
  Qed.

  Lemma comparison_u_fin v : v < 2 * ua -> comparison_u (Fin v) ua = Fin (2 / (2 - v / ua)).
  Proof.
    intros Hv. assert (Hup : 0 < ua) by lra. pose proof (denom_pos ua Hup v Hv) as Hd.
    unfold comparison_u. rewrite (xdiv_fin v ua) by lra.
    change (xsub (Fin 2) (Fin (v / ua))) with (Fin (2 - v / ua)). rewrite xdiv_fin by lra. reflexivity.
  Qed.

  Lemma overstatement_assorter_range means v mvr cvr use_style x :
    v < 2 * ua -> 0 <= A mvr <= ua -> 0 <= A cvr <= ua -> means_ok ua means = true ->
    overstatement_assorter A cid means (Fin v) ua mvr cvr use_style = Ok x ->
    in_range (2 / (2 - v / ua)) x.
  Proof.
    intros Hv Hm Hc Hok. assert (Hup : 0 < ua) by lra. pose proof (denom_pos ua Hup v Hv) as Hd.
    unfold overstatement_assorter.
    destruct (overstatement A cid means mvr cvr use_style) as [o|e] eqn:Eo; [|discriminate].
    destruct (overstatement_range means mvr cvr use_style o Hm Hc Hok Eo) as [q [-> [Hq1 Hq2]]].
    rewrite (xdiv_fin q ua) by lra. rewrite (xdiv_fin v ua) by lra.
    change (xsub (Fin 1) (Fin (q / ua))) with (Fin (1 - q / ua)).
    change (xsub (Fin 2) (Fin (v / ua))) with (Fin (2 - v / ua)).
    rewrite xdiv_fin by lra. intros H. injection H as <-. eexists. split; [reflexivity|].
    assert (H1 : q / ua <= 1) by (apply Qle_shift_div_r; lra).
    assert (H2 : -1 <= q / ua) by (apply Qle_shift_div_l; lra).
    set (r := q / ua) in *. set (D := 2 - v / ua) in *. split.
    - apply Qle_shift_div_l; [exact Hd|lra].
    - apply Qle_shift_div_r; [exact Hd|]. assert (E : 2 / D * D == 2) by (field; lra). rewrite E. lra.
  Qed.
End C06.

Lemma range_ok_app A ua l m : range_ok A ua (l ++ m) = true -> range_ok A ua l = true /\ range_ok A ua m = true.
Proof. unfold range_ok. rewrite forallb_app. apply andb_true_iff. Qed.

(* comparison / ONEAudit: every datum is in [0, 2/(2 - v/u_a)] and that bound is the u returned *)
Lemma C06_comparison_lemma (a : asn) (mvrs cvrs : list card) (use_all : bool) (d : list Xq) (u : Xq) (v : Q) :
  is_comparison (a_type a) = true ->
  a_margin a = Fin v -> (1 # 2) <= a_ua a -> v < 2 * a_ua a ->
  range_ok (a_A a) (a_ua a) (mvrs ++ cvrs) = true ->
  means_ok (a_ua a) (a_means a) = true ->
  mvrs_to_data a mvrs cvrs use_all = Ok (d, u) ->
  u = Fin (2 / (2 - v / a_ua a)) /\ Forall (in_range (2 / (2 - v / a_ua a))) d.
Proof.
  intros Hc Hmg Hua Hv Hr Hok. unfold mvrs_to_data. rewrite Hc, Hmg.
  destruct (collect _) as [d'|e] eqn:Ecol; [|discriminate]. intros H. injection H as <- <-.
  split; [now apply comparison_u_fin|].
  apply collect_ok in Ecol. apply range_ok_app in Hr. destruct Hr as [Hrm Hrc].
  remember (filter (keep a use_all) (combine mvrs cvrs)) as ps eqn:Eps.
  assert (Hps : forall p, In p ps -> In (fst p) mvrs /\ In (snd p) cvrs).
  { intros [m c] Hp. rewrite Eps in Hp. apply filter_In in Hp. destruct Hp as [Hp _].
    split; [eapply in_combine_l|eapply in_combine_r]; exact Hp. }
  clear Eps. revert d' Ecol. induction ps as [|p ps IH]; intros d' Ecol; simpl in Ecol; inversion Ecol; subst.
  - constructor.
  - constructor.
    + destruct (Hps p (or_introl eq_refl)) as [Hm' Hc'].
      eapply (overstatement_assorter_range (a_A a) (a_cid a) (a_ua a) Hua); [exact Hv| | |exact Hok|eassumption].
      * exact (range_ok_In (a_A a) (a_ua a) mvrs _ Hrm Hm').
      * exact (range_ok_In (a_A a) (a_ua a) cvrs _ Hrc Hc').
    + apply IH; [|assumption]. intros q Hq. apply Hps. now right.
Qed.

(* polling: the data are the assorter values of the manual records, the bound is the assorter's own *)
Lemma C06_polling_lemma (a : asn) (mvrs cvrs : list card) (use_all : bool) :
  a_type a = Polling ->
  mvrs_to_data a mvrs cvrs use_all = Ok (map (fun m => Fin (a_A a m)) mvrs, Fin (a_ua a)) /\
  (range_ok (a_A a) (a_ua a) mvrs = true -> Forall (in_range (a_ua a)) (map (fun m => Fin (a_A a m)) mvrs)).
Proof.
  intros Ht. unfold mvrs_to_data. rewrite Ht. simpl. split; [reflexivity|].
  intros Hr. apply Forall_forall. intros x Hx. apply in_map_iff in Hx. destruct Hx as [m [<- Hm]].
  exists (a_A a m). split; [reflexivity|]. exact (range_ok_In (a_A a) (a_ua a) mvrs m Hr Hm).
Qed.

(* the style / threshold filter *)
Lemma keep_no_evalue (a : asn) use_all p :
  keep a use_all p = true ->
  overstatement_assorter (a_A a) (a_cid a) (a_means a) (a_margin a) (a_ua a) (fst p) (snd p) (a_style a) <> Raise EValue.
Proof.
  unfold keep, overstatement_assorter, overstatement. intros Hk.
  destruct (a_style a); simpl in *.
  - apply andb_true_iff in Hk. destruct Hk as [Hk _]. rewrite Hk. simpl.
    destruct (c_pool (snd p)); [destruct (a_means a) as [ms|]; [destruct (lookup _ ms)|]|]; discriminate.
  - destruct (c_pool (snd p)); [destruct (a_means a) as [ms|]; [destruct (lookup _ ms)|]|]; discriminate.
Qed.

Lemma C06_filter_lemma (a : asn) (mvrs cvrs : list card) (use_all : bool) :
  is_comparison (a_type a) = true ->
  let contributing :=
    filter (fun p => negb (a_style a) ||
                     (has_contest (a_cid a) (snd p) && (use_all || Qle_bool (c_snum (snd p)) (a_thr a))))
           (combine mvrs cvrs) in
  mvrs_to_data a mvrs cvrs use_all <> Raise EValue /\
  forall d u, mvrs_to_data a mvrs cvrs use_all = Ok (d, u) ->
    Forall2 (fun p x => overstatement_assorter (a_A a) (a_cid a) (a_means a) (a_margin a) (a_ua a)
                                               (fst p) (snd p) (a_style a) = Ok x) contributing d.
Proof.
  intros Hc contributing. unfold mvrs_to_data. rewrite Hc. fold (keep a use_all). fold contributing.
  split.
  - destruct (collect _) as [d'|e] eqn:Ecol; [discriminate|]. intros H. injection H as ->.
    apply collect_raise in Ecol. apply in_map_iff in Ecol. destruct Ecol as [p [Hp Hin]].
    unfold contributing in Hin. apply filter_In in Hin. destruct Hin as [_ Hk].
    exact (keep_no_evalue a use_all p Hk Hp).
  - intros d u. destruct (collect _) as [d'|e] eqn:Ecol; [|discriminate]. intros H. injection H as <- _.
    apply collect_ok in Ecol. apply Forall2_map_l in Ecol. exact Ecol.
Qed.

(* set_p_values: each test runs with the u returned by mvrs_to_data already installed, on exactly those data;
   nothing else in the assertion changes *)
Lemma C06_installed_lemma (mvrs cvrs : list card) : forall (asns asns' : list asn) (calls : list call),
  set_p_values asns mvrs cvrs = Ok (asns', calls) ->
  length asns' = length asns /\ length calls = length asns /\
  Forall2 (fun a (ac : asn * call) =>
             exists d u, mvrs_to_data a mvrs cvrs false = Ok (d, u) /\
                         call_u (snd ac) = u /\ call_d (snd ac) = d /\
                         fst ac = set_test_u a u /\ a_test_u (fst ac) = u)
          asns (combine asns' calls).
Proof.
  induction asns as [|a r IH]; simpl; intros asns' calls H.
  - injection H as <- <-. repeat split; constructor.
  - destruct (mvrs_to_data a mvrs cvrs false) as [[d u]|e] eqn:Ed; [|discriminate].
    destruct (set_p_values r mvrs cvrs) as [[as' cs]|e] eqn:Er; [|discriminate].
    injection H as <- <-. destruct (IH as' cs eq_refl) as [H1 [H2 H3]]. simpl.
    repeat split; try congruence.
    constructor; [|exact H3]. exists d, u. split; [exact Ed|]. simpl. repeat split; reflexivity.
Qed.

(* the pool means computed by set_tally_pool_means from an assorter with values in [0, ua] satisfy means_ok as soon
   as no listed pool is empty *)
Lemma pool_means_ok A cid cvrs arg use_style ua means :
  range_ok A ua cvrs = true ->
  set_tally_pool_means A cid cvrs arg use_style = Ok means ->
  forall p m, In (p, m) means -> m = NaN \/ in_range ua m.
Proof.
  intros Hr Hm p m Hin. unfold set_tally_pool_means in Hm.
  destruct (forallb _ _) in Hm; [|discriminate]. injection Hm as <-.
  apply in_map_iff in Hin. destruct Hin as [p' [E _]]. injection E as -> <-.
  unfold pool_mean. set (ms := pool_members cid use_style p cvrs).
  destruct ms as [|c ms'] eqn:Ems; [now left|]. right.
  rewrite np_mean_fin by discriminate. eexists. split; [reflexivity|].
  assert (Hne : c :: ms' <> []) by discriminate. pose proof (qlen_pos _ Hne) as Hn.
  assert (Hb : forall x, In x (c :: ms') -> 0 <= A x <= ua).
  { intros x Hx. apply (range_ok_In A ua cvrs x Hr). rewrite <- Ems in Hx. unfold ms, pool_members in Hx.
    apply filter_In in Hx. tauto. }
  destruct (qsum_bounds A 0 ua (c :: ms') Hb) as [Hlo Hhi]. rewrite qlen_map. split.
  - apply Qle_shift_div_l; [exact Hn|lra].
  - apply Qle_shift_div_r; [exact Hn|lra].
Qed.

(* corollary of the identity: rejecting "mean B <= 1/2" is rejecting "mean Abar <= 1/2" *)
Lemma C03_reject_iff_lemma (A : card -> Q) (cid : Z) (use_style : bool) (ua : Q) :
  0 < ua ->
  forall (pairs : list (card * card)) (arg : option (list Z)) (means : list (Z * Xq)),
  let cvrs := map snd pairs in
  let scope := filter (in_scope cid use_style) pairs in
  scope <> [] ->
  phantoms_half A (map snd scope) = true ->
  range_ok A ua (map snd scope) = true ->
  set_tally_pool_means A cid cvrs arg use_style = Ok means ->
  exists v bs,
    margin_of_mean (assorter_mean A cid cvrs use_style) = Fin v /\
    map (fun p => overstatement_assorter A cid (Some means) (Fin v) ua (fst p) (snd p) use_style) scope
      = map (fun b => Ok (Fin b)) bs /\
    ((1 # 2) < mean bs <-> (1 # 2) < mean (map (fun p => abar A cid use_style (fst p)) scope)).
Proof.
  intros Hu pairs arg means cvrs scope Hne Hph Hr Hm.
  destruct (C03_identity_lemma A cid use_style ua Hu pairs arg means Hne Hph Hr Hm) as [v [bs [H1 [_ [H3 [_ H5]]]]]].
  exists v, bs. repeat split; try assumption; apply H5.
Qed.
