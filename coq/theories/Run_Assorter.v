(* Run_Assorter.v — entry points evaluated by the C02 correspondence harness.
   Every case carries the inputs AND what the implementation returned; agree_* compares inside Coq. *)
From SV Require Export Assorter.
From Coq Require Export String.
Open Scope Q_scope.

(* ---------- assorters on a card list ---------- *)
Inductive akind :=
| APl (w l : cand)                              (* one assertion made by make_plurality_assertions *)
| ASm (f : Q) (w : cand) (losers : list cand).  (* the assertion made by make_supermajority_assertion *)

(* what was observed of one assorter; None = the call raised *)
Record a_obs := mkobs {
  o_kind : akind;
  o_vals : list (option Q);       (* Assorter.assort(c) on every card of the list, in order *)
  o_ub : Q;                       (* Assorter.upper_bound *)
  o_mean_style : option Xq;       (* Assorter.mean(cards, use_style=True) *)
  o_mean_all : option Xq;         (* Assorter.mean(cards, use_style=False) *)
  o_polling : bool; o_style : bool;
  o_margin : option Xq;           (* Assertion.margin after set_margin_from_cvrs(audit, cards) *)
  o_u : option Xq                 (* Assertion.test.u after it *)
}.
Record a_case := mka { a_con : contest_id; a_cards : list card; a_observed : list a_obs }.

Definition model_assort (con : contest_id) (k : akind) : card -> Q :=
  match k with
  | APl w l => assort_pl con w l
  | ASm f w losers => assort_sm con f w (sm_cands w losers)
  end.
Definition model_ub (k : akind) : Q := match k with APl _ _ => ub_pl | ASm f _ _ => ub_sm f end.

Definition oclose_q (m : Q) (o : option Q) : bool := match o with Some v => close_q m v | None => false end.
(* numeric closeness, and on which side of 1/2 the mean lies.  Plurality means are k/(2n) computed without
   rounding error that could cross 1/2: the side is compared exactly.  Super-majority values 1/(2f) are rounded
   doubles: the side is compared unless the model's mean is within 2^-20 of 1/2 *)
Definition gt_half (x : Xq) : bool := xlt (Fin (1 # 2)) x.
Definition near_half (x : Xq) : bool :=
  match x with Fin q => Qlt_bool (Qabsb (q - (1 # 2))) (mkq 1 1048576) | _ => false end.
Definition oclose_mean (exact : bool) (m : Xq) (o : option Xq) : bool :=
  match o with
  | Some v => close_x m v && ((negb exact && near_half m) || Bool.eqb (gt_half m) (gt_half v))
  | None => false
  end.
Definition is_pl (k : akind) : bool := match k with APl _ _ => true | _ => false end.
Definition oclose_x (m : Xq) (o : option Xq) : bool := match o with Some v => close_x m v | None => false end.

Definition agree_obs (con : contest_id) (cs : list card) (o : a_obs) : bool :=
  let a := model_assort con (o_kind o) in
  let ub := model_ub (o_kind o) in
  let mu := set_margin_from_cvrs (o_polling o) (o_style o) con a ub cs in
  all2 oclose_q (map a cs) (o_vals o)
  && close_q ub (o_ub o)
  && oclose_mean (is_pl (o_kind o)) (mean true con a cs) (o_mean_style o)
  && oclose_mean (is_pl (o_kind o)) (mean false con a cs) (o_mean_all o)
  && oclose_x (fst mu) (o_margin o) && oclose_x (snd mu) (o_u o).
Definition agree_a (c : a_case) : bool := forallb (agree_obs (a_con c) (a_cards c)) (a_observed c).
Definition show_a (c : a_case) :=
  map (fun o => let a := model_assort (a_con c) (o_kind o) in
                (map a (a_cards c), model_ub (o_kind o), mean true (a_con c) a (a_cards c),
                 mean false (a_con c) a (a_cards c),
                 set_margin_from_cvrs (o_polling o) (o_style o) (a_con c) a (model_ub (o_kind o)) (a_cards c)))
      (a_observed c).

(* ---------- single-card readers: get_vote_for / as_vote / has_contest / has_one_vote ---------- *)
(* (card, contest, candidate list, [as_vote(get_vote_for(con, x)) for x], truthiness of get_vote_for,
    has_contest, has_one_vote) *)
Record r_case := mkr {
  r_card : card; r_con : contest_id; r_cands : list cand;
  r_votes : list Z; r_truthy : list bool; r_has : bool; r_one : option bool }.  (* None = has_one_vote raised *)
Definition zeqb_list (a b : list Z) : bool := all2 Z.eqb a b.
Definition agree_r (c : r_case) : bool :=
  zeqb_list (map (fun x => as_vote (get_vote_for (r_card c) (r_con c) x)) (r_cands c)) (r_votes c)
  && all2 Bool.eqb (map (fun x => truthy (get_vote_for (r_card c) (r_con c) x)) (r_cands c)) (r_truthy c)
  && Bool.eqb (has_contest (r_card c) (r_con c)) (r_has c)
  && match r_one c with Some b => Bool.eqb (has_one_vote (r_card c) (r_con c) (r_cands c)) b | None => false end.
Definition show_r (c : r_case) :=
  (map (fun x => as_vote (get_vote_for (r_card c) (r_con c) x)) (r_cands c),
   has_contest (r_card c) (r_con c), has_one_vote (r_card c) (r_con c) (r_cands c)).

(* ---------- Contest.tally and CVR.tabulate_votes ---------- *)
(* counting dicts are compared as functions with default 0 (they are defaultdict(int)): key order and the
   presence of zero-valued keys are not part of the property *)
Definition get0 (k : Z) (l : list (Z * Z)) : Z := match assoc k l with Some v => v | None => 0%Z end.
Definition dict_eqb (a b : list (Z * Z)) : bool :=
  forallb (fun kv : Z * Z => (get0 (fst kv) a =? snd kv)%Z) b && forallb (fun kv : Z * Z => (get0 (fst kv) b =? snd kv)%Z) a.
Definition getd (k : Z) (l : list (Z * list (Z * Z))) : list (Z * Z) := match assoc k l with Some v => v | None => [] end.
Definition dict2_eqb (a b : list (Z * list (Z * Z))) : bool :=
  forallb (fun kv : Z * list (Z * Z) => dict_eqb (getd (fst kv) a) (snd kv)) b
  && forallb (fun kv : Z * list (Z * Z) => dict_eqb (getd (fst kv) b) (snd kv)) a.
Record t_case := mkt {
  t_con : contest_id; t_enforce : bool; t_nw : Z; t_cards : list card;
  t_tally : list (Z * Z);                      (* dict(contest.tally) after Contest.tally(...) *)
  t_tab : option (list (Z * list (Z * Z))) }.  (* CVR.tabulate_votes(cards), when observed *)
Definition agree_t (c : t_case) : bool :=
  dict_eqb (tally_contest (t_enforce c) (t_nw c) (t_con c) (t_cards c)) (t_tally c)
  && match t_tab c with
     | None => true
     | Some tb => dict2_eqb (tabulate_votes (t_cards c)) tb
     end.
Definition show_t (c : t_case) :=
  (tally_contest (t_enforce c) (t_nw c) (t_con c) (t_cards c), tabulate_votes (t_cards c)).

(* ---------- find_margin_from_tally / Contest.find_margins_from_tally ---------- *)
Record m_case := mkm {
  m_arg : option tally_dict; m_ctally : option tally_dict; m_scf : scf; m_w : cand; m_l : cand;
  m_cards : Z; m_f : Q; m_candidates : list cand;
  m_res : res }.                               (* Assertion.margin afterwards, or the exception kind *)
Definition err_eqb (a b : err) : bool :=
  match a, b with
  | KeyError, KeyError | ZeroDivisionError, ZeroDivisionError | TypeError, TypeError
  | NotImplementedError, NotImplementedError => true
  | _, _ => false
  end.
Definition res_eqb (a b : res) : bool :=
  match a, b with
  | Val x, Val y => close_x x y
  | Err e, Err e' => err_eqb e e'
  | _, _ => false
  end.
Definition model_m (c : m_case) : res :=
  find_margin_from_tally (m_arg c) (m_ctally c) (m_scf c) (m_w c) (m_l c) (m_cards c) (m_f c) (m_candidates c).
Definition agree_m (c : m_case) : bool := res_eqb (model_m c) (m_res c).
Definition show_m (c : m_case) := model_m c.
