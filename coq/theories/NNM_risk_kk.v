(* NNM_risk_kk.v — C01 for Kaplan-Kolmogorov, sampling without replacement from a nonnegative population *)
From SV Require Import NNM NNM_machines NNM_ranges NNM_spec NNM_hist NNM_wf NNM_prefix NNM_defs NNM_kaplan
     Prob NNM_risk NNM_risk_inst NNM_risk_iid_kaplan NNM_mono.
Open Scope Q_scope.

Definition kk_ratio_q (xg m : Q) : Q := if Qeq_bool m 0 && Qeq_bool xg 0 then 1 else xg / m.

Section KK.
Variables (n : Z) (t g : Q).
Hypothesis Hg : 0 <= g.
Let t' := t + g.

Definition kstate := ((Q * Z) * Q)%type.
Definition k_m (k : kstate) : Q := mu_at (Some n) t' (fst (fst k)) (snd (fst k)).
Definition kstep (k : kstate) (x : Q) : kstate :=
  (sj_step (fst k) (x + g), Qred (snd k * kk_ratio_q (x + g) (k_m k))).
Definition kinit : kstate := ((0, 1%Z), 1).
Definition kfold (p : list Q) : kstate := fold_left kstep p kinit.
Definition Mk (p : list Q) : Q := snd (kfold p).

Lemma kfold_snoc p x : kfold (p ++ [x]) = kstep (kfold p) x.
Proof. unfold kfold. now rewrite fold_left_app. Qed.

Lemma ks_fold p : forall k, fst (fst (fold_left kstep p k)) == fst (fst k) + lsum p + qn (length p) * g
                            /\ snd (fst (fold_left kstep p k)) = (snd (fst k) + Z.of_nat (length p))%Z.
Proof.
  induction p as [|x r IH]; intro k; cbn [fold_left lsum fold_right length].
  - split; [unfold qn; simpl; ring|lia].
  - destruct (IH (kstep k x)) as [H1 H2]. rewrite H1, H2. unfold kstep, sj_step; cbn [fst snd].
    rewrite Qred_correct, qn_S. fold (lsum r). split; [ring|lia].
Qed.

Definition KInv (p rem : list Q) : Prop :=
  Forall (fun x => 0 <= x) p /\ Forall (fun x => 0 <= x) rem
  /\ lsum p + lsum rem <= qz n * t /\ Z.of_nat (length p + length rem) = n.

Lemma lsum_nonneg0 l : Forall (fun x => 0 <= x) l -> 0 <= lsum l.
Proof. induction 1 as [|x l Hx _ IH]; cbn [lsum fold_right]; [lra|]. fold (lsum l). lra. Qed.

Lemma KInv_step p rem i : KInv p rem -> (i < length rem)%nat -> KInv (p ++ [nth i rem 0]) (remove_nth i rem).
Proof.
  intros [Hp [Hr [Hs Hl]]] Hi. unfold KInv. repeat split.
  - apply Forall_app. split; auto. constructor; [|constructor]. rewrite Forall_forall in Hr. apply Hr. now apply nth_In.
  - rewrite Forall_forall in *. intros x Hx. apply Hr. eapply In_remove_nth; eauto.
  - rewrite lsum_app. cbn [lsum fold_right]. pose proof (lsum_remove_nth rem i Hi). lra.
  - rewrite app_length, remove_nth_length by auto. simpl. lia.
Qed.

(* |rem| * m = n t' - S' >= sum over rem of (r + g) *)
Lemma km_after p rem : KInv p rem -> rem <> [] ->
  qn (length rem) * k_m (kfold p) == qz n * t - lsum p + qn (length rem) * g
  /\ lsum rem + qn (length rem) * g <= qn (length rem) * k_m (kfold p).
Proof.
  intros [Hp [Hr [Hs Hl]]] Hne. destruct (ks_fold p kinit) as [HS Hj]. fold (kfold p) in HS, Hj.
  cbn [kinit fst snd] in HS, Hj. unfold k_m. set (k := kfold p) in *.
  assert (Hjn : (snd (fst k) <= n)%Z). { rewrite Hj. destruct rem; [congruence|]. simpl in Hl. lia. }
  destruct (mu_at_some n t' (fst (fst k)) (snd (fst k)) Hjn) as [Hdn Hm].
  assert (Edn : qz n - qz (snd (fst k)) + 1 == qn (length rem)).
  { rewrite qz_sub, Hj. unfold qz, qn. f_equal. rewrite <- Hl. rewrite Nat2Z.inj_add.
    assert (E : (Z.of_nat (length p) + Z.of_nat (length rem) - (1 + Z.of_nat (length p)) + 1 = Z.of_nat (length rem))%Z) by lia.
    now rewrite E. }
  assert (En : qz n == qn (length p) + qn (length rem)).
  { unfold qz, qn. rewrite <- Hl, Nat2Z.inj_add, inject_Z_plus. reflexivity. }
  assert (E1 : qn (length rem) * mu_at (Some n) t' (fst (fst k)) (snd (fst k)) == qz n * t - lsum p + qn (length rem) * g).
  { transitivity ((qz n - qz (snd (fst k)) + 1) * mu_at (Some n) t' (fst (fst k)) (snd (fst k))); [now rewrite Edn|].
    rewrite Qmult_comm, Hm, HS. unfold t'. rewrite En. ring. }
  split; auto. rewrite E1. lra.
Qed.

Lemma Mk_nonneg_fold p : forall k, 0 <= snd k ->
  (forall q r, p = q ++ r -> True) -> Forall (fun x => 0 <= x) p ->
  (forall q x r, p = q ++ x :: r -> 0 <= kk_ratio_q (x + g) (k_m (fold_left kstep q k))) ->
  0 <= snd (fold_left kstep p k).
Proof.
  induction p as [|x r IH]; intros k Hk _ Hp Hrat; [exact Hk|]. inversion Hp; subst.
  cbn [fold_left]. apply IH; auto.
  - unfold kstep; cbn [snd]. rewrite Qred_correct. pose proof (Hrat [] x r eq_refl). cbn [fold_left] in H. nra.
  - intros q y r' E. apply (Hrat (x :: q) y r'). cbn. now rewrite E.
Qed.

(* under the null the ratio applied at every position is nonnegative, and the running product too *)
Lemma ratio_nonneg_null p rem x : KInv p rem -> In x rem -> 0 <= kk_ratio_q (x + g) (k_m (kfold p)).
Proof.
  intros HK Hin. assert (Hne : rem <> []) by (destruct rem; [contradiction|discriminate]).
  destruct (km_after p rem HK Hne) as [_ Hle]. destruct HK as [_ [Hr _]].
  assert (Hx : 0 <= x) by (rewrite Forall_forall in Hr; auto).
  pose proof (lsum_nonneg0 rem Hr) as Hs.
  assert (Hk : 0 < qn (length rem)) by (apply qn_pos; destruct rem; [congruence|simpl; lia]).
  unfold kk_ratio_q. destruct (Qeq_bool (k_m (kfold p)) 0 && Qeq_bool (x + g) 0); [lra|].
  assert (0 <= k_m (kfold p)) by nra.
  destruct (Qeq_bool (k_m (kfold p)) 0) eqn:E.
  - apply Qeq_bool_iff in E.
    assert (Ez : (x + g) / k_m (kfold p) == 0). { rewrite E. unfold Qdiv. change (/ 0) with 0. ring. }
    rewrite Ez. lra.
  - apply Qeq_bool_false in E. apply div_nonneg; [lra|]. destruct (Qle_lt_or_eq _ _ H); auto. exfalso. apply E. symmetry. auto.
Qed.

Lemma Mk_nonneg p rem : KInv p rem -> 0 <= Mk p.
Proof.
  revert rem. induction p as [|x p IH] using rev_ind; intros rem HK; [cbn; lra|].
  unfold Mk. rewrite kfold_snoc. unfold kstep; cbn [snd]. rewrite Qred_correct.
  destruct HK as [Hp [Hr [Hs Hl]]]. apply Forall_app in Hp. destruct Hp as [Hp Hx]. inversion Hx as [|x0 l0 Hx0 _]; subst.
  assert (HK' : KInv p (x :: rem)).
  { unfold KInv. split; [exact Hp|]. split; [constructor; auto|]. split.
    - pose proof (lsum_app p [x]) as Ea. assert (Eb : lsum [x] == x) by (cbn; ring).
      assert (Ec : lsum (x :: rem) == x + lsum rem) by reflexivity. lra.
    - rewrite app_length in Hl. simpl in *. lia. }
  pose proof (IH _ HK') as HM. unfold Mk in HM.
  pose proof (ratio_nonneg_null p (x :: rem) x HK' (or_introl eq_refl)). nra.
Qed.

Lemma Mk_super p rem : KInv p rem -> rem <> [] ->
  lsum (map (fun i => Mk (p ++ [nth i rem 0])) (seq 0 (length rem))) <= qn (length rem) * Mk p.
Proof.
  intros HK Hne. pose proof (Mk_nonneg p rem HK) as HM. destruct (km_after p rem HK Hne) as [_ Hle].
  pose proof HK as [Hp [Hr [Hs Hl]]].
  assert (Hk : 0 < qn (length rem)) by (apply qn_pos; destruct rem; [congruence|simpl; lia]).
  pose proof (lsum_nonneg0 rem Hr) as Hsr.
  set (m := k_m (kfold p)) in *.
  assert (Hm0 : 0 <= m) by nra.
  assert (Estep : forall x, Mk (p ++ [x]) == Mk p * kk_ratio_q (x + g) m).
  { intro x. unfold Mk. rewrite kfold_snoc. unfold kstep; cbn [snd]. rewrite Qred_correct. reflexivity. }
  destruct (Qeq_bool m 0) eqn:E.
  - (* m = 0: every remaining shifted value is 0, every ratio is 1 *)
    apply Qeq_bool_iff in E.
    assert (Hall : forall x, In x rem -> x + g == 0).
    { assert (Hz : lsum rem + qn (length rem) * g <= 0) by (rewrite E in Hle; lra).
      assert (Hg0 : qn (length rem) * g == 0) by nra. assert (Hs0 : lsum rem == 0) by lra.
      assert (g == 0) by nra.
      clear -Hr Hs0 H. induction rem as [|a l IH]; intros x Hx; [contradiction|]. inversion Hr; subst.
      cbn [lsum fold_right] in Hs0. fold (lsum l) in Hs0. pose proof (lsum_nonneg0 l H3).
      destruct Hx as [Ex|Hx]; [subst; lra| apply IH; auto; lra]. }
    assert (Hterm : lsum (map (fun i => Mk (p ++ [nth i rem 0])) (seq 0 (length rem)))
                    == lsum (map (fun _ => Mk p) (seq 0 (length rem)))).
    { apply lsum_eq_pointwise. intros i Hi. apply in_seq in Hi. rewrite Estep. unfold kk_ratio_q.
      assert (E1 : Qeq_bool m 0 = true) by (now apply Qeq_bool_iff).
      assert (E2 : Qeq_bool (nth i rem 0 + g) 0 = true) by (apply Qeq_bool_iff, Hall, nth_In; lia).
      rewrite E1, E2. cbn [andb]. ring. }
    rewrite Hterm, lsum_const, seq_length. lra.
  - apply Qeq_bool_false in E. assert (Hmp : 0 < m) by (destruct (Qle_lt_or_eq _ _ Hm0); auto; exfalso; apply E; symmetry; auto).
    assert (Hterm : lsum (map (fun i => Mk (p ++ [nth i rem 0])) (seq 0 (length rem)))
                    == lsum (map (fun i => (Mk p / m) * nth i rem 0 + Mk p / m * g) (seq 0 (length rem)))).
    { apply lsum_eq_pointwise. intros i Hi. rewrite Estep. unfold kk_ratio_q.
      assert (E1 : Qeq_bool m 0 = false) by (now apply Qeq_bool_false). rewrite E1. cbn [andb]. field. lra. }
    rewrite Hterm, (lsum_plus (fun i => Mk p / m * nth i rem 0) (fun _ => Mk p / m * g)).
    rewrite lsum_const, seq_length.
    assert (E2 : lsum (map (fun i => Mk p / m * nth i rem 0) (seq 0 (length rem))) == Mk p / m * lsum rem).
    { assert (G : forall l, lsum (map (fun i => Mk p / m * nth i rem 0) l) == Mk p / m * lsum (map (fun i => nth i rem 0) l)).
      { induction l as [|i l IHl]; cbn [map lsum fold_right]; [ring|].
        fold (lsum (map (fun i => Mk p / m * nth i rem 0) l)). fold (lsum (map (fun i => nth i rem 0) l)). rewrite IHl. ring. }
      rewrite G, lsum_nth_seq. reflexivity. }
    rewrite E2.
    assert (Hd : 0 <= Mk p / m) by (apply div_nonneg; auto).
    assert (E3 : Mk p / m * lsum rem + qn (length rem) * (Mk p / m * g) == Mk p / m * (lsum rem + qn (length rem) * g)) by ring.
    rewrite E3.
    assert (E4 : qn (length rem) * Mk p == Mk p / m * (qn (length rem) * m)) by (field; lra).
    rewrite E4. nra.
Qed.

Theorem Mk_ville alpha pop : 0 < alpha -> KInv [] pop -> forall k, pcross Mk (1 / alpha) k [] pop <= alpha.
Proof.
  intros Ha HR k.
  pose proof (ville Mk (1 / alpha) KInv KInv_step Mk_nonneg Mk_super k [] pop HR) as HV.
  assert (EM : Mk [] == 1) by reflexivity. rewrite EM in HV.
  assert (E : pcross Mk (1 / alpha) k [] pop * (1 / alpha) == pcross Mk (1 / alpha) k [] pop / alpha) by (field; lra).
  rewrite E in HV.
  assert (E2 : pcross Mk (1 / alpha) k [] pop == pcross Mk (1 / alpha) k [] pop / alpha * alpha) by (field; lra).
  rewrite E2. nra.
Qed.

(* ---- link with the model: under the null the reported terms are exactly the running products ---- *)
Fixpoint kTs (k : kstate) (xs : list Q) : list Q :=
  match xs with [] => [] | x :: r => snd (kstep k x) :: kTs (kstep k x) r end.
Fixpoint kk_ok (k : kstate) (xs : list Q) : Prop :=
  match xs with
  | [] => True
  | x :: r => (0 < k_m k \/ (k_m k == 0 /\ x + g == 0)) /\ kk_ok (kstep k x) r
  end.

Lemma kTs_nth xs : forall k j T, nth_error (kTs k xs) j = Some T ->
  (j < length xs)%nat /\ T = snd (fold_left kstep (firstn (S j) xs) k).
Proof.
  induction xs as [|x r IH]; intros k j T H; [destruct j; discriminate|].
  destruct j as [|j]; cbn [kTs nth_error] in H.
  - apply Some_inj in H. split; [simpl; lia|]. now rewrite <- H.
  - destruct (IH (kstep k x) j T H) as [H1 H2]. split; [simpl; lia|]. exact H2.
Qed.

Lemma kk_terms_ok_z xs : forall k seen, kk_ok k xs -> (seen = true -> snd k = 0) ->
  kk_terms_from n t' (fst k) seen (Fin (snd k)) (map (fun x => x + g) xs) = map Fin (kTs k xs).
Proof.
  induction xs as [|x r IH]; intros k seen Hok Hseen; [reflexivity|]. destruct Hok as [Hm Hok].
  unfold kk_terms_from. cbn [map mscan map2 xcumprod absorb map3 kTs].
  change (mu_out (Some n) t' (fst k)) with (k_m k).
  fold (kk_terms_from n t' (sj_step (fst k) (x + g)) (seen || xis_zero (kk_ratio (x + g) (k_m k)))
                      (xred (xmul (Fin (snd k)) (kk_ratio (x + g) (k_m k)))) (map (fun x => x + g) r)).
  assert (Eacc : kk_ratio (x + g) (k_m k) = Fin (kk_ratio_q (x + g) (k_m k))
                 /\ xred (xmul (Fin (snd k)) (kk_ratio (x + g) (k_m k))) = Fin (snd (kstep k x))
                 /\ kk_override (x + g) (k_m k) (Fin (snd (kstep k x))) = Fin (snd (kstep k x))).
  { unfold kstep; cbn [snd]. unfold kk_ratio, kk_ratio_q, kk_override.
    destruct Hm as [Hp|[Hz Hx]].
    - assert (E1 : Qeq_bool (k_m k) 0 = false) by (apply Qeq_bool_false; lra).
      assert (E2 : Qlt_bool (k_m k) 0 = false) by (apply Qlt_bool_false; lra).
      rewrite E1, E2. cbn [andb orb xdiv]. rewrite E1. cbn [xmul xred]. repeat split; reflexivity.
    - assert (E1 : Qeq_bool (k_m k) 0 = true) by (now apply Qeq_bool_iff).
      assert (E2 : Qeq_bool (x + g) 0 = true) by (now apply Qeq_bool_iff).
      assert (E3 : Qlt_bool (k_m k) 0 = false) by (apply Qlt_bool_false; lra).
      assert (E4 : Qlt_bool 0 (x + g) = false) by (apply Qlt_bool_false; lra).
      rewrite E1, E2, E3, E4. cbn [andb orb xmul xred]. repeat split; reflexivity. }
  destruct Eacc as [Er [Ea Eo]]. rewrite Ea. rewrite Er. cbn [xis_zero].
  assert (Ez : seen || Qeq_bool (kk_ratio_q (x + g) (k_m k)) 0 = true -> snd (kstep k x) = 0).
  { intro H. unfold kstep; cbn [snd]. exact (absorbed_zero seen (snd k) _ Hseen H). }
  assert (Ee : (if seen || Qeq_bool (kk_ratio_q (x + g) (k_m k)) 0 then Fin 0 else Fin (snd (kstep k x)))
               = Fin (snd (kstep k x))).
  { destruct (seen || Qeq_bool (kk_ratio_q (x + g) (k_m k)) 0) eqn:Es; [now rewrite (Ez eq_refl)|reflexivity]. }
  rewrite Ee, Eo. f_equal. exact (IH (kstep k x) _ Hok Ez).
Qed.
Lemma kk_terms_ok xs : forall k, kk_ok k xs ->
  kk_terms_from n t' (fst k) false (Fin (snd k)) (map (fun x => x + g) xs) = map Fin (kTs k xs).
Proof. intros k H. apply kk_terms_ok_z; auto. discriminate. Qed.

Lemma kk_ok_null q : forall p r, KInv p (q ++ r) -> kk_ok (kfold p) q.
Proof.
  induction q as [|x q IH]; intros p r HK; [exact I|].
  cbn [kk_ok]. split.
  - assert (Hne : (x :: q) ++ r <> []) by discriminate.
    destruct (km_after p _ HK Hne) as [_ Hle]. pose proof HK as [_ [Hr _]].
    assert (Hk : 0 < qn (length ((x :: q) ++ r))) by (apply qn_pos; simpl; lia).
    pose proof (lsum_nonneg0 _ Hr) as Hs. set (m := k_m (kfold p)) in *.
    assert (Hm0 : 0 <= m) by nra.
    destruct (Qle_lt_or_eq _ _ Hm0) as [Hlt|Heq]; [now left|right]. split; [now symmetry|].
    set (c := qn (length ((x :: q) ++ r))) in *.
    assert (Hz : lsum ((x :: q) ++ r) + c * g <= 0) by (rewrite <- Heq in Hle; lra).
    assert (Es : lsum ((x :: q) ++ r) == x + lsum (q ++ r)) by reflexivity.
    inversion Hr as [|x0 l0 Hx0 Hr']; subst. pose proof (lsum_nonneg0 _ Hr') as Hs'.
    assert (Hcg : 0 <= c * g) by nra.
    assert (Hcg0 : c * g == 0) by lra.
    assert (Hg0 : g == 0) by nra. lra.
  - rewrite <- kfold_snoc. apply (IH (p ++ [x]) r).
    destruct HK as [Hp [Hr [Hs Hl]]]. inversion Hr as [|x0 l0 Hx0 Hr']; subst.
    unfold KInv. split; [apply Forall_app; split; auto|]. split; [exact Hr'|]. split.
    + pose proof (lsum_app p [x]) as Ea. assert (Eb : lsum [x] == x) by (cbn; ring).
      assert (Ec : lsum ((x :: q) ++ r) == x + lsum (q ++ r)) by reflexivity. lra.
    + rewrite !app_length in *. cbn [length] in *. lia.
Qed.

Definition kfull (s : list Q) : Prop :=
  Forall (fun x => 0 <= x) s /\ lsum s <= qz n * t /\ Z.of_nat (length s) = n.

Theorem kk_reject_crosses ro alpha s k h :
  0 < alpha -> alpha < 1 -> kfull s -> (1 <= k <= length s)%nat ->
  In h (fst (kaplan_kolmogorov g ro n t (firstn k s)) :: snd (kaplan_kolmogorov g ro n t (firstn k s))) ->
  xle h (Fin alpha) = true ->
  crosses Mk (1 / alpha) [] s = true.
Proof.
  intros Ha Ha1 [Hr [Hs Hl]] Hk Hin Hle.
  set (xs := firstn k s) in *.
  assert (HK : KInv [] (xs ++ skipn k s)).
  { unfold xs. rewrite firstn_skipn. unfold KInv. repeat split; auto. cbn. lra. }
  pose proof (kk_ok_null xs [] (skipn k s) HK) as Hok. change (kfold []) with kinit in Hok.
  pose proof (kk_terms_ok xs kinit Hok) as ET. cbn [kinit fst snd] in ET.
  assert (Hxl : length xs = k) by (unfold xs; rewrite firstn_length; lia).
  unfold kaplan_kolmogorov in Hin. cbv zeta in Hin. cbn [fst snd] in Hin.
  change (map3 kk_override (map (fun x => x + g) xs) (mu_list (Some n) (t + g) (map (fun x => x + g) xs))
            (absorb xis_zero (Fin 0) false
                    (map2 kk_ratio (map (fun x => x + g) xs) (mu_list (Some n) (t + g) (map (fun x => x + g) xs)))
                    (xcumprod (Fin 1) (map2 kk_ratio (map (fun x => x + g) xs) (mu_list (Some n) (t + g) (map (fun x => x + g) xs))))))
    with (kk_terms_from n t' (0, 1%Z) false (Fin 1) (map (fun x => x + g) xs)) in Hin.
  rewrite ET in Hin. fold pvr in Hin.
  set (Ts := kTs kinit xs) in *.
  assert (Hlen : length Ts = length xs). { unfold Ts. generalize kinit. clear. induction xs; intro k0; simpl; auto. }
  assert (HneT : Ts <> []) by (intro E; rewrite E in Hlen; destruct xs; simpl in *; [lia|congruence]).
  (* every running product is nonnegative *)
  assert (Hnn : Forall (fun T => 0 <= T) Ts).
  { apply Forall_forall. intros T HT. apply In_nth_error in HT. destruct HT as [j Hj].
    destruct (kTs_nth xs kinit j T Hj) as [Hjl ETj]. rewrite ETj. fold (kfold (firstn (S j) xs)). fold (Mk (firstn (S j) xs)).
    apply (Mk_nonneg _ (skipn (S j) xs ++ skipn k s)).
    assert (E : firstn (S j) xs ++ skipn (S j) xs ++ skipn k s = xs ++ skipn k s) by (rewrite app_assoc, firstn_skipn; reflexivity).
    destruct HK as [_ [Hr2 [Hs2 Hl2]]]. cbn [lsum fold_right length] in Hs2, Hl2. rewrite <- E in Hr2, Hs2, Hl2.
    apply Forall_app in Hr2. destruct Hr2 as [Hr2a Hr2b]. rewrite lsum_app in Hs2. rewrite app_length in Hl2.
    unfold KInv. split; [exact Hr2a|]. split; [exact Hr2b|]. split; [lra|lia]. }
  assert (Hnnx : Forall nn_term (map Fin Ts)).
  { apply Forall_map. eapply Forall_impl; [|exact Hnn]. intros T HT. right. exists T. auto. }
  assert (HneX : map Fin Ts <> []) by (destruct Ts; [congruence|discriminate]).
  assert (Hsome : exists T, In T Ts /\ xle (pvr (Fin T)) (Fin alpha) = true).
  { destruct Hin as [E|Hin].
    - destruct ro.
      + destruct (xmax_list_nn _ HneX Hnnx) as [HM [HIn _]]. rewrite (py_pvr _ HM) in E.
        apply in_map_iff in HIn. destruct HIn as [T [ETm HT]]. exists T. split; auto. rewrite ETm, E. exact Hle.
      + assert (HL : In (xlast (map Fin Ts)) (map Fin Ts)) by (unfold xlast; now apply last_In).
        assert (HLn : nn_term (xlast (map Fin Ts))) by (rewrite Forall_forall in Hnnx; now apply Hnnx).
        rewrite (py_pvr _ HLn) in E. apply in_map_iff in HL. destruct HL as [T [ETm HT]]. exists T. split; auto.
        rewrite ETm, E. exact Hle.
    - rewrite map_map in Hin. apply in_map_iff in Hin. destruct Hin as [T [ETm HT]]. exists T. split; auto. now rewrite ETm. }
  destruct Hsome as [T [HT HleT]].
  pose proof HT as HT'. apply In_nth_error in HT. destruct HT as [j Hj].
  destruct (kTs_nth xs kinit j T Hj) as [Hjl ETj].
  apply (crosses_firstn Mk (1 / alpha) s [] (S j)). rewrite app_nil_l. apply Qle_bool_iff.
  assert (E : firstn (S j) xs = firstn (S j) s) by (unfold xs; rewrite firstn_firstn; f_equal; lia).
  unfold Mk, kfold. rewrite <- E, <- ETj.
  apply pvr_le_alpha; auto. rewrite Forall_forall in Hnn. now apply Hnn.
Qed.

Theorem kk_risk_limit_count ro alpha pop :
  0 < alpha -> alpha < 1 -> kfull pop ->
  qn (length (filter (rejectsb (kaplan_kolmogorov g ro n t) alpha) (orderings (length pop) pop)))
  / qn (ffact (length pop) (length pop)) <= alpha.
Proof.
  intros Ha Ha1 Hpop. pose proof Hpop as [Hr [Hs Hl]].
  assert (HR : KInv [] pop) by (unfold KInv; repeat split; auto; cbn; lra).
  pose proof (Mk_ville alpha pop Ha HR (length pop)) as HV.
  rewrite pcross_count in HV by lia.
  assert (Hf : 0 < qn (ffact (length pop) (length pop))) by (apply qn_pos, ffact_pos; lia).
  eapply Qle_trans; [|exact HV].
  unfold Qdiv. apply Qmult_le_compat_r; [| apply Qlt_le_weak, Qinv_lt_0_compat; exact Hf].
  unfold qn. rewrite <- Zle_Qle. apply Nat2Z.inj_le.
  unfold count_cross. apply filter_length_le. intros s Hin Hrej.
  destruct (orderings_props (fun x => 0 <= x) (length pop) pop s (le_n _) Hin) as [H1 [H2 H3]].
  assert (Hfull : kfull s).
  { split; [now apply H2|]. split; [rewrite H3 by reflexivity; exact Hs| rewrite H1; exact Hl]. }
  unfold rejectsb in Hrej. apply existsb_exists in Hrej. destruct Hrej as [k [Hk Hex]].
  apply in_seq in Hk. cbv zeta in Hex. apply existsb_exists in Hex. destruct Hex as [h [Hh Hle]].
  eapply kk_reject_crosses; eauto. lia.
Qed.
End KK.

Definition null_pop_nn (t : Q) (pop : list Q) : Prop :=
  pop <> [] /\ Forall (fun x => 0 <= x) pop /\ lsum pop <= qz (Z.of_nat (length pop)) * t.

Theorem kaplan_kolmogorov_risk_limit g ro t pop alpha :
  0 <= g -> null_pop_nn t pop -> 0 < alpha -> alpha < 1 ->
  let N := Z.of_nat (length pop) in
  qn (length (filter (rejectsb (kaplan_kolmogorov g ro N t) alpha) (orderings (length pop) pop)))
  / qn (ffact (length pop) (length pop)) <= alpha.
Proof.
  intros Hg [Hne [Hr Hs]] Ha Ha1 N. apply kk_risk_limit_count; auto. split; auto.
Qed.
