(* Sampling.v — executable model of the sampling glue in shangrla/core/Audit.py (properties C07, C10).
   Mirrors, statement by statement:
     CVR.has_contest, CVR.assign_sample_nums, CVR.consistent_sampling (fresh draw and the
     sampled_cvr_indices continuation), CVR.prep_comparison_sample, CVR.prep_polling_sample,
     the style/threshold filter of Assertion.mvrs_to_data, the sticky `proved` flag of Assertion.set_p_values,
     and a round state machine (state shared between rounds: contest.sample_threshold, cvr.sampled, proved).
   No proofs here (Sampling_proofs.v).  Identifiers (contests, card ids) are Z; card positions are nat. *)
From SV Require Export Xq.
Open Scope Z_scope.

(* Python exceptions the modelled code can raise *)
(* OtherError: any other exception class seen by the harness; the model never produces it *)
Inductive exn := IndexError | TypeError | KeyError | AssertionError | ValueError | NotImplementedError | OtherError.
Inductive res (A : Type) := Ok (a : A) | Err (e : exn).
Arguments Ok {A} a.
Arguments Err {A} e.

Definition exn_eqb (a b : exn) : bool :=
  match a, b with
  | IndexError, IndexError | TypeError, TypeError | KeyError, KeyError | AssertionError, AssertionError
  | ValueError, ValueError | NotImplementedError, NotImplementedError => true
  | _, _ => false
  end.

(* A CVR as far as sampling is concerned: its sample number and its `votes` dict (contest id -> vote dict).
   The vote dicts, and everything else the record carries (id, phantom flag, pool, ...), are an abstract payload V:
   no model function inspects a value of type V. *)
Record card (V : Type) := mkcard { c_num : Z; c_votes : list (Z * V); c_extra : V }.
Arguments mkcard {V} _ _ _.
Arguments c_num {V} _.
Arguments c_votes {V} _.
Arguments c_extra {V} _.

(* CVR.has_contest: `contest_id in self.votes` *)
Definition has_contest {V} (cd : card V) (c : Z) : bool := existsb (fun kv => Z.eqb c (fst kv)) (c_votes cd).

(* The three Contest attributes the sampler touches.  sample_threshold = None until a card is first taken for it. *)
Record contest := mkcon { k_id : Z; k_size : nat; k_thr : option Z }.

(* ---------------------------------------------------------------- stable sort (Python `sorted` / `list.sort` with key) *)
Fixpoint insert_by {A} (key : A -> Z) (x : A) (l : list A) : list A :=
  match l with
  | [] => [x]
  | y :: r => if key x <=? key y then x :: l else y :: insert_by key x r
  end.
(* fold from the right: x precedes everything already inserted, so it must go before equal keys (stability) *)
Definition sort_by {A} (key : A -> Z) (l : list A) : list A := fold_right (insert_by key) [] l.
Definition enumerate {A} (l : list A) : list (nat * A) := combine (seq 0 (length l)) l.

(* `sorted(enumerate(cvr_list), key=lambda x: x[1].sample_num)`  (Audit.py L859-861) *)
Definition sorted_cards {V} (cards : list (card V)) : list (nat * card V) :=
  sort_by (fun ic => c_num (snd ic)) (enumerate cards).

(* ---------------------------------------------------------------- CVR.consistent_sampling (Audit.py L829-891) *)
(* a contest paired with its counter current_sizes[c.id]  (dict key == contest id, as Contest.from_dict_of_dicts makes it) *)
Definition in_progress (s : contest * nat) : bool := Nat.ltb (snd s) (k_size (fst s)).
Definition wants {V} (cd : card V) (s : contest * nat) : bool := in_progress s && has_contest cd (k_id (fst s)).
(* L874-881: threshold := this card's number, counter += 1, for every unfinished contest the card lists *)
Definition bump {V} (cd : card V) (s : contest * nat) : contest * nat :=
  if has_contest cd (k_id (fst s)) && in_progress s
  then (mkcon (k_id (fst s)) (k_size (fst s)) (Some (c_num cd)), S (snd s))
  else s.
Definition memn (i : nat) (l : list nat) : bool := existsb (Nat.eqb i) l.

(* the `while` loop over sorted_cvr_indices[inx], then the `extend` at L886-888; IndexError when the order is
   exhausted while some contest is still unfinished (thresholds already assigned stay assigned) *)
Fixpoint walk {V} (already : list nat) (st : list (contest * nat)) (l : list (nat * card V))
  : res (list nat) * list (contest * nat) :=
  if negb (existsb in_progress st)
  then (Ok (filter (fun i => memn i already) (map fst l)), st)
  else match l with
       | [] => (Err IndexError, st)
       | (i, cd) :: rest =>
           if existsb (wants cd) st then
             match walk already (map (bump cd) st) rest with
             | (Ok sel, st') => (Ok (i :: sel), st')
             | e => e
             end
           else if memn i already then
             match walk already st rest with
             | (Ok sel, st') => (Ok (i :: sel), st')
             | e => e
             end
           else walk already st rest
       end.

(* returns (selected indices | exception, contests with their updated thresholds) *)
Definition consistent_sampling {V} (cards : list (card V)) (contests : list contest) (prev : option (list nat))
  : res (list nat) * list contest :=
  let already := match prev with None => [] | Some p => p end in
  let r := walk already (map (fun k => (k, 0%nat)) contests) (sorted_cards cards) in
  (fst r, map fst (snd r)).

(* L889-890: `cvr_list[i].sampled = True` for the returned indices *)
Fixpoint mark_from (i : nat) (flags : list bool) (sel : list nat) : list bool :=
  match flags with
  | [] => []
  | b :: r => (b || memn i sel) :: mark_from (S i) r sel
  end.
Definition mark_sampled (flags : list bool) (sel : list nat) : list bool := mark_from 0%nat flags sel.

(* ---------------------------------------------------------------- CVR.assign_sample_nums (Audit.py L719-738) *)
Section Stream.
  (* rnd k = int_from_hash of the k-th output of the cryptorandom SHA-256 generator for the audit seed
     (SHA-256 itself is trusted, not modelled) *)
  Variable rnd : nat -> Z.
  Fixpoint assign_from {V} (k : nat) (cards : list (card V)) : list (card V) :=
    match cards with
    | [] => []
    | cd :: r => mkcard (rnd k) (c_votes cd) (c_extra cd) :: assign_from (S k) r
    end.
  (* k = the generator's counter on entry; returns the renumbered cards and the counter on exit *)
  Definition assign_sample_nums {V} (k : nat) (cards : list (card V)) : list (card V) * nat :=
    (assign_from k cards, (k + length cards)%nat).
End Stream.

(* ---------------------------------------------------------------- Assertion.mvrs_to_data (Audit.py L1634-1667) *)
Inductive atype := Comparison | OneAudit | Polling | OtherType.

Section Data.
  Context {M V D : Type}.
  Variable f : M -> card V -> D.   (* self.overstatement_assorter(mvr, cvr, use_style) *)
  Variable g : M -> D.             (* self.assorter.assort(mvr) *)
  (* the comprehension `for i in range(len(mvr_sample)) if (not use_style) or (cvr_sample[i].has_contest(con.id)
     and (use_all or cvr_sample[i].sample_num <= con.sample_threshold))`; cvr_sample[i] past the end: IndexError;
     comparison with a threshold that was never set (None): TypeError *)
  Fixpoint data_filter (use_style use_all : bool) (cid : Z) (thr : option Z) (ms : list M) (cs : list (card V))
    : res (list D) :=
    match ms with
    | [] => Ok []
    | m :: ms' =>
        match cs with
        | [] => Err IndexError
        | c :: cs' =>
            let rest := data_filter use_style use_all cid thr ms' cs' in
            let take := match rest with Ok d => Ok (f m c :: d) | Err e => Err e end in
            if negb use_style then take
            else if negb (has_contest c cid) then rest
            else if use_all then take
            else match thr with
                 | None => Err TypeError
                 | Some t => if c_num c <=? t then take else rest
                 end
        end
    end.
  Definition mvrs_to_data (ty : atype) (use_style use_all : bool) (cid : Z) (thr : option Z)
             (ms : list M) (cs : list (card V)) : res (list D) :=
    match ty with
    | Comparison | OneAudit => data_filter use_style use_all cid thr ms cs
    | Polling => Ok (map g ms)
    | OtherType => Err NotImplementedError
    end.
End Data.

(* ---------------------------------------------------------------- CVR.prep_comparison_sample / prep_polling_sample *)
Fixpoint lookup {B} (k : Z) (l : list (Z * B)) : option B :=
  match l with
  | [] => None
  | (k', v) :: r => if Z.eqb k k' then Some v else lookup k r
  end.
(* `list.sort(key=lambda x: sample_order[x.id]["selection_order"])`: keys are computed first; a missing id: KeyError *)
Definition sort_ids (order : list (Z * Z)) (ids : list Z) : res (list Z) :=
  if forallb (fun i => match lookup i order with Some _ => true | None => false end) ids
  then Ok (sort_by (fun i => match lookup i order with Some k => k | None => 0 end) ids)
  else Err KeyError.
Fixpoint ids_match (ms cs : list Z) : bool :=
  match ms, cs with
  | m :: ms', c :: cs' => Z.eqb m c && ids_match ms' cs'
  | _, _ => true
  end.
(* L769-779 on the lists of ids: both sorted (in place), then the two assertions *)
Definition prep_comparison_sample (order : list (Z * Z)) (mids cids : list Z) : res (list Z * list Z) :=
  match sort_ids order mids with
  | Err e => Err e
  | Ok ms =>
      match sort_ids order cids with
      | Err e => Err e
      | Ok cs =>
          if negb (Nat.eqb (length cs) (length ms)) then Err AssertionError
          else if ids_match ms cs then Ok (ms, cs) else Err AssertionError
      end
  end.
Definition prep_polling_sample (order : list (Z * Z)) (mids : list Z) : res (list Z) := sort_ids order mids.

(* ---------------------------------------------------------------- Assertion.set_p_values L2328: sticky `proved` *)
(* `asn.proved = (asn.p_value <= con.risk_limit) or asn.proved`  (comparison with NaN is False) *)
Definition set_proved (risk : Q) (p : Xq) (proved : bool) : bool := xle p (Fin risk) || proved.
Definition proved_after (risk : Q) (ps : list Xq) (p0 : bool) : bool :=
  fold_left (fun b p => set_proved risk p b) ps p0.

(* ---------------------------------------------------------------- rounds (C10) *)
(* One escalation round as the audit driver performs it: set contest.sample_size, call consistent_sampling either
   afresh or with the previous round's indices, mark cvr.sampled.  State carried from round to round:
   the contests (thresholds), the sampled flags, the last returned selection. *)
Record rstate := mkrs { r_contests : list contest; r_flags : list bool; r_prev : list nat }.
Record round_op := mkop { o_sizes : list nat; o_continue : bool }.   (* sizes positionally, one per contest *)

Fixpoint set_sizes (contests : list contest) (sizes : list nat) : list contest :=
  match contests, sizes with
  | k :: ks, n :: ns => mkcon (k_id k) n (k_thr k) :: set_sizes ks ns
  | _, _ => contests
  end.

Definition round_step {V} (cards : list (card V)) (st : rstate) (op : round_op) : res (list nat) * rstate :=
  let cons := set_sizes (r_contests st) (o_sizes op) in
  let r := consistent_sampling cards cons (if o_continue op then Some (r_prev st) else None) in
  match fst r with
  | Ok sel => (Ok sel, mkrs (snd r) (mark_sampled (r_flags st) sel) sel)
  | Err e => (Err e, mkrs (snd r) (r_flags st) (r_prev st))
  end.

(* the whole history: the selections of the successive rounds (stops at the first exception) *)
Fixpoint run_rounds {V} (cards : list (card V)) (st : rstate) (ops : list round_op) : list (res (list nat) * rstate) :=
  match ops with
  | [] => []
  | op :: r =>
      let x := round_step cards st op in
      match fst x with
      | Ok _ => x :: run_rounds cards (snd x) r
      | Err _ => [x]
      end
  end.

(* the sample handed to mvrs_to_data in a round: cvr_list[i] / the manual record of card i, in selection order *)
Definition sample_cards {V} (dflt : card V) (cards : list (card V)) (sel : list nat) : list (card V) :=
  map (fun i => nth i cards dflt) sel.
Definition round_data {M V D} (f : M -> card V -> D) (g : M -> D) (mvr : nat -> M) (dflt : card V)
           (cards : list (card V)) (sel : list nat) (ty : atype) (use_style : bool) (k : contest) : res (list D) :=
  mvrs_to_data f g ty use_style false (k_id k) (k_thr k) (map mvr sel) (sample_cards dflt cards sel).
