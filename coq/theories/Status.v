(* Status.v — executable model of the completion logic (property C09).
   Mirrors shangrla/core/Audit.py : Assertion.set_p_values, Audit.summarize_status, Assertion.reset_p_values,
   Audit.check_audit_parameters.  p-values are Xq because a test can return NaN and every comparison with NaN is False.
   No proofs here (Status_proofs.v). *)
From SV Require Export Xq.
Open Scope Q_scope.

Inductive serr := SAssert (code : nat) (contest : Z) | SRaise.
Inductive sresult (A : Type) := SOk (a : A) | SErr (e : serr).
Arguments SOk {A} a.
Arguments SErr {A} e.

(* an Assertion as far as the completion logic reads or writes it: its key in con.assertions, p_value, p_history, proved *)
Record assertion := mkasn { a_key : Z; a_p : Xq; a_hist : list Xq; a_proved : bool }.
(* a Contest: its key in the contests dict, risk_limit, assertions (dict order), and the attributes written by
   set_p_values / reset_p_values: p_values, proved (dicts, insertion order), max_p *)
Record contest := mkcon {
  c_key : Z; c_limit : Q; c_asns : list assertion;
  c_pvalues : list (Z * Xq); c_proved : list (Z * bool); c_maxp : Xq }.

(* dict.update({a: x}) on an association list in insertion order: an existing key keeps its place *)
Fixpoint dict_update {V} (d : list (Z * V)) (key : Z) (x : V) : list (Z * V) :=
  match d with
  | [] => [(key, x)]
  | (a, b) :: r => if Z.eqb a key then (a, x) :: r else (a, b) :: dict_update r key x
  end.

Section SetP.
  (* what asn.test.test(d) returns for (d, u) = asn.mvrs_to_data(mvr_sample, cvr_sample) of the assertion stored under
     (contest key, assertion key); None = the computation raises *)
  Variable test : Z -> Z -> option (Xq * list Xq).

  (* asn.p_value, asn.p_history = asn.test.test(d);  asn.proved = (asn.p_value <= con.risk_limit) or asn.proved *)
  Definition set_asn (limit : Q) (r : Xq * list Xq) (a : assertion) : assertion :=
    mkasn (a_key a) (fst r) (snd r) (xle (fst r) (Fin limit) || a_proved a).

  (* inner loop of set_p_values over con.assertions.items(); accumulator: (assertions done (reversed), p_values, proved, contest_max_p) *)
  Fixpoint asn_loop (ck : Z) (limit : Q) (todo : list assertion)
           (acc : list assertion * list (Z * Xq) * list (Z * bool) * Xq)
    : sresult (list assertion * list (Z * Xq) * list (Z * bool) * Xq) :=
    match todo with
    | [] => SOk acc
    | a :: rest =>
        match test ck (a_key a) with
        | None => SErr SRaise
        | Some r =>
            let '(done, pv, pr, mx) := acc in
            let a' := set_asn limit r a in
            asn_loop ck limit rest
                     (a' :: done, dict_update pv (a_key a) (a_p a'), dict_update pr (a_key a) (a_proved a'),
                      xmax_np mx (a_p a'))             (* contest_max_p = np.max([contest_max_p, asn.p_value]) *)
        end
    end.

  (* one iteration of the outer loop: con.p_values = {}; con.proved = {}; contest_max_p = 0; ...; contests[c].max_p = contest_max_p *)
  Definition set_contest (c : contest) : sresult contest :=
    match asn_loop (c_key c) (c_limit c) (c_asns c) ([], [], [], Fin 0) with
    | SErr e => SErr e
    | SOk (done, pv, pr, mx) => SOk (mkcon (c_key c) (c_limit c) (rev done) pv pr mx)
    end.

  (* outer loop; accumulator (contests done (reversed), p_max);  p_max = np.max([p_max, contests[c].max_p]) *)
  Fixpoint con_loop (todo : list contest) (acc : list contest * Xq) : sresult (list contest * Xq) :=
    match todo with
    | [] => SOk acc
    | c :: rest =>
        match set_contest c with
        | SErr e => SErr e
        | SOk c' => con_loop rest (c' :: fst acc, xmax_np (snd acc) (c_maxp c'))
        end
    end.

  (* Assertion.set_p_values(contests, mvr_sample, cvr_sample); lens_ok = (cvr_sample is None or len(mvr_sample) == len(cvr_sample)) *)
  Definition set_p_values (lens_ok : bool) (cs : list contest) : sresult (list contest * Xq) :=
    if negb lens_ok then SErr (SAssert 0 0%Z)
    else match con_loop cs ([], Fin 0) with
         | SErr e => SErr e
         | SOk (done, pmax) => SOk (rev done, pmax)
         end.
End SetP.

(* Audit.summarize_status: cpmax = 0; for a in assertions: cpmax = np.max([cpmax, a.p_value]);
   if cpmax <= risk_limit: (complete) else: done = False *)
Definition contest_cpmax (c : contest) : Xq := fold_left (fun m a => xmax_np m (a_p a)) (c_asns c) (Fin 0).
Definition summarize_status (cs : list contest) : bool :=
  fold_left (fun done c => if xle (contest_cpmax c) (Fin (c_limit c)) then done else false) cs true.

(* Assertion.reset_p_values *)
Definition reset_asn (a : assertion) : assertion := mkasn (a_key a) (Fin 1) [] false.
Definition reset_contest (c : contest) : contest :=
  let asns := map reset_asn (c_asns c) in
  mkcon (c_key c) (c_limit c) asns
        (fold_left (fun d a => dict_update d (a_key a) (a_p a)) asns [])
        (fold_left (fun d a => dict_update d (a_key a) (a_proved a)) asns [])
        (Fin 1).
Definition reset_p_values (cs : list contest) : list contest * bool := (map reset_contest cs, true).

(* ---------------------------------------------------------------- check_audit_parameters *)
(* contest parameters read by check_audit_parameters *)
Record cparams := mkcp {
  p_key : Z; p_limit : Q;
  p_choice : Z;                 (* 0 APPROVAL, 1 PLURALITY, 2 SUPERMAJORITY, 3 IRV, anything else: not a supported function *)
  p_nwinners : Z; p_candidates : list Z; p_winner : list Z;
  p_afile : bool }.             (* truthiness of con.assertion_file *)

Definition check_contest (p : cparams) : option nat :=
  if negb (Qlt_bool 0 (p_limit p)) then Some 3%nat
  else if negb (Qle_bool (p_limit p) (1 # 2)) then Some 4%nat
  else if negb ((0 <=? p_choice p)%Z && (p_choice p <=? 3)%Z) then Some 5%nat
  else if negb (p_nwinners p <=? Z.of_nat (length (p_candidates p)))%Z then Some 6%nat
  else if negb (Z.of_nat (length (p_winner p)) =? p_nwinners p)%Z then Some 7%nat
  else if negb (forallb (fun w => existsb (Z.eqb w) (p_candidates p)) (p_winner p)) then Some 8%nat
  else if (p_choice p =? 3)%Z && negb (p_nwinners p =? 1)%Z then Some 9%nat
  else if (p_choice p =? 3)%Z && negb (p_afile p) then Some 10%nat
  else None.
Fixpoint check_contests (ps : list cparams) : sresult unit :=
  match ps with
  | [] => SOk tt
  | p :: r => match check_contest p with
              | Some code => SErr (SAssert code (p_key p))
              | None => check_contests r
              end
  end.
(* Audit.check_audit_parameters: returns None or raises AssertionError at the first failing assert (numbered 1..10) *)
Definition check_audit_parameters (e1 e2 : Q) (ps : list cparams) : sresult unit :=
  if negb (Qle_bool 0 e1) then SErr (SAssert 1 0%Z)
  else if negb (Qle_bool 0 e2) then SErr (SAssert 2 0%Z)
  else check_contests ps.
