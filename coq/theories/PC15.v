(* PC15.v — property C15: with zero allowed gap the largest difficulty among the returned assertions equals the
   minimum, over all sets of true assertions that exclude every alternative winner, of the largest difficulty in
   the set, for every difficulty function that decreases as the margin grows.

   Proved here for ALL candidate lists, profiles, totals, reported winners and for EVERY difficulty function
   dfun : winner tally -> loser tally -> total -> Q (antitone or not; the two shipped ones, cp_q / bp_q, are shown
   antitone in the margin in RaireCheck_proofs.cp_q_antitone / bp_q_antitone): the executable `opt` IS that minimum.
   The search algorithm (branch-and-bound with diving in compute_raire_assertions) is modelled (RaireAlgo.raire, tied
   output-for-output to the code) and proved SOUND (PC04.v C04_algo_output_checked; below: its largest difficulty is
   >= opt), but its OPTIMALITY (largest difficulty <= opt) is not proved about the model;
   on every run each output of the implementation is compared with this verified optimum
   (harness/c15.py -> Run_Raire.agree_c15: exactly when a Fraction-valued difficulty function is passed to the real
   code, within 2^-30 for the shipped float functions), and C04's verified check_output shows the returned set is
   itself a sufficient set of true assertions, so by the second clause below its largest difficulty can only be
   >= opt; equality is what the run-time comparison establishes per output (DESIGN section 4 table, row C04/C15). *)
From SV Require Import RaireCheck RaireCheck_proofs RaireAlgo RaireAlgo_proofs RaireAlgo_inv.
Open Scope nat_scope.

Theorem C15_opt_is_minimax : forall (dfun : nat -> nat -> nat -> Q) cands p tot winner,
  NoDup cands ->
  match opt dfun cands p tot winner with
  | Val d =>
      (* some sufficient set of true assertions has largest difficulty exactly d ... *)
      (exists S, true_set cands p S /\ sufficient cands winner S /\
                 (forall a, In a S -> (diff_of dfun p tot a <= d)%Q) /\
                 (exists a, In a S /\ (diff_of dfun p tot a == d)%Q))
      (* ... and every sufficient set of true assertions contains an assertion of difficulty >= d *)
      /\ (forall S, true_set cands p S -> sufficient cands winner S ->
                    exists a, In a S /\ (d <= diff_of dfun p tot a)%Q)
  | Top => ~ exists S, true_set cands p S /\ sufficient cands winner S      (* no audit possible *)
  | Bot => sufficient cands winner []                                       (* nothing to exclude *)
  end.
Proof. exact opt_dec_correct. Qed.
Print Assumptions C15_opt_is_minimax.

(* opt is the least threshold: opt <= d exactly when the true assertions of difficulty <= d are sufficient *)
Theorem C15_opt_least_threshold : forall (dfun : nat -> nat -> nat -> Q) cands p tot winner,
  NoDup cands -> forall d,
  (ele (opt dfun cands p tot winner) d = true <->
   sufficient cands winner (filter (fun a => Qle_bool (diff_of dfun p tot a) d) (all_true cands p))).
Proof. exact opt_le_iff. Qed.
Print Assumptions C15_opt_least_threshold.

(* ---- about the model of the search itself (RaireAlgo.raire, tied output-for-output to compute_raire_assertions by
   Run_Raire.agree_algo): every difficulty it reports is the difficulty function applied to the reported tallies, and a
   non-empty result is a sufficient set of true assertions, so an audit is possible (opt <> Top) and the largest
   reported difficulty is AT LEAST the optimum.  The other inequality (the search never does worse than opt, i.e.
   the branch-and-bound bookkeeping `lowerbound <= opt`) is NOT proved about the model; it is established per output
   on every run by comparing the implementation's largest difficulty with the verified `opt` (agree_c15). *)
Theorem C15_algo_difficulties :
  forall fuel dfun cands p tot winner hint out,
    raire fuel dfun cands p tot winner hint = Some out ->
    forall a tw tl d, In (a, tw, tl, d) out -> d = dfun tw tl tot.
Proof. exact raire_model_difficulties. Qed.
Print Assumptions C15_algo_difficulties.

Theorem C15_algo_max_ge_opt_partial :
  forall fuel dfun cands p tot winner hint out,
    NoDup cands ->
    raire fuel dfun cands p tot winner hint = Some out -> out <> [] ->
    match opt dfun cands p tot winner with
    | Val d0 => exists a tw tl d, In (a, tw, tl, d) out /\ (d0 <= d)%Q
    | Top => False
    | Bot => True
    end.
Proof. exact raire_model_max_ge_opt. Qed.
Print Assumptions C15_algo_max_ge_opt_partial.

(* ---- non-vacuity *)
Definition ex_cands : list cand := [0; 1; 2].
Definition ex_profile : profile :=
  [[0;1;2]; [0;1;2]; [0;2]; [0]; [1;0]; [1;2;0]; [2;1;0]; [2;1]; [2;0;1]; []].
Example ex_nodup : NoDup ex_cands.
Proof. repeat constructor; simpl; intuition discriminate. Qed.
(* the Val branch is inhabited: cp difficulty 10 (margin 1 of 10 ballots: NEN 0 2 [1], 5 against 4), bp difficulty 90 *)
Example ex_opt : opt cp_q ex_cands ex_profile 10 0 = Val (10 # 1)
              /\ opt bp_q ex_cands ex_profile 10 0 = Val (90 # 1)
              /\ opt cp_q ex_cands ex_profile 10 2 = Top
              /\ opt cp_q [0] [[0]] 1 0 = Bot.
Proof. vm_compute. repeat split; reflexivity. Qed.
