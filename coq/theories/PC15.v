(* PC15.v — property C15: with zero allowed gap the largest difficulty among the returned assertions equals the
   minimum, over all sets of true assertions that exclude every alternative winner, of the largest difficulty in
   the set, for every difficulty function that decreases as the margin grows.

   Proved here for ALL candidate lists, profiles, totals, reported winners and for EVERY difficulty function
   dfun : winner tally -> loser tally -> total -> Q (antitone or not; the two shipped ones, cp_q / bp_q, are shown
   antitone in the margin in RaireCheck_proofs.cp_q_antitone / bp_q_antitone): the executable `opt` IS that minimum.
   The search algorithm (branch-and-bound with diving in compute_raire_assertions) is modelled (RaireAlgo.raire, tied
   output-for-output to the code on every run by Run_Raire.agree_algo) and C15 is PROVED about the model
   (C15_algo_optimal below): for every fuel that is not exhausted, duplicate-free candidate list, profile, total,
   reported winner, order hint, and every difficulty function whose values on true comparisons are >= the initial
   lower bound -10 (dfun_lb; proved for both shipped functions, so C15_algo_optimal_cp / _bp carry no hypothesis on
   the function): a non-empty result has largest difficulty EQUAL to `opt`.  Termination is proved in PC04.v
   (C04_algo_terminates / C04_algo_total_correct); more fuel never changes a result (C15_algo_fuel_mono).  Not proved:
   that the constant RaireAlgo.default_fuel is large enough — exhaustion is reported as a disagreement on every run.  The implementation itself is additionally compared with `opt` per output
   (harness/c15.py -> Run_Raire.agree_c15: exactly with Fraction-valued difficulty functions, within 2^-30 for the
   shipped float ones; DESIGN section 4 table, row C04/C15). *)
From SV Require Import RaireCheck RaireCheck_proofs RaireAlgo RaireAlgo_proofs RaireAlgo_inv RaireAlgo_complete RaireAlgo_opt RaireAlgo_fuel.
Open Scope nat_scope.

Theorem C15_opt_is_minimax : forall (dfun : nat -> nat -> nat -> Q) cands p tot winner,
  NoDup cands ->
  match opt dfun cands p tot winner with
  | Val d =>
      (* some sufficient set of true assertions has largest difficulty exactly d ... *)
      (exists S, true_set cands p S /\ sufficient cands winner S /\
                 (forall a, In a S -> (diff_of dfun p tot a <= d)%Q) /\
                 (exists a, In a S /\ (diff_of dfun p tot a == d)%Q))
      (* ... and every sufficient set of true assertions contains an assertion of difficulty >= d *)
      /\ (forall S, true_set cands p S -> sufficient cands winner S ->
                    exists a, In a S /\ (d <= diff_of dfun p tot a)%Q)
  | Top => ~ exists S, true_set cands p S /\ sufficient cands winner S      (* no audit possible *)
  | Bot => sufficient cands winner []                                       (* nothing to exclude *)
  end.
Proof. exact opt_dec_correct. Qed.
Print Assumptions C15_opt_is_minimax.

(* opt is the least threshold: opt <= d exactly when the true assertions of difficulty <= d are sufficient *)
Theorem C15_opt_least_threshold : forall (dfun : nat -> nat -> nat -> Q) cands p tot winner,
  NoDup cands -> forall d,
  (ele (opt dfun cands p tot winner) d = true <->
   sufficient cands winner (filter (fun a => Qle_bool (diff_of dfun p tot a) d) (all_true cands p))).
Proof. exact opt_le_iff. Qed.
Print Assumptions C15_opt_least_threshold.

(* ---- about the model of the search itself (RaireAlgo.raire, tied output-for-output to compute_raire_assertions by
   Run_Raire.agree_algo).  Proof idea of optimality (RaireAlgo_opt.v): find_best_audit returns the cheapest assertion
   it considers and meets every true assertion contradicting an order at the suffix starting at its winner; the best
   ancestor carries the least estimate along the chain of suffixes, so the lower bound is only ever raised to the
   cheapest way of excluding some complete order, hence stays <= opt; the frontier is ordered so that, when its head
   is a leaf, every entry costs at most the head; leaves cost at most opt. *)
Theorem C15_algo_optimal :
  forall fuel dfun cands p tot winner hint out,
    NoDup cands -> dfun_lb dfun tot ->
    raire fuel dfun cands p tot winner hint = Some out -> out <> [] ->
    exists d, opt dfun cands p tot winner = Val d /\
              (forall a tw tl q, In (a, tw, tl, q) out -> (q <= d)%Q) /\
              (exists a tw tl q, In (a, tw, tl, q) out /\ (d <= q)%Q).
Proof. exact raire_model_optimal. Qed.
Print Assumptions C15_algo_optimal.

Theorem C15_algo_optimal_cp :
  forall fuel cands p tot winner hint out,
    NoDup cands -> raire fuel cp_q cands p tot winner hint = Some out -> out <> [] ->
    exists d, opt cp_q cands p tot winner = Val d /\
              (forall a tw tl q, In (a, tw, tl, q) out -> (q <= d)%Q) /\
              (exists a tw tl q, In (a, tw, tl, q) out /\ (d <= q)%Q).
Proof. exact raire_model_optimal_cp. Qed.
Print Assumptions C15_algo_optimal_cp.

Theorem C15_algo_optimal_bp :
  forall fuel cands p tot winner hint out,
    NoDup cands -> raire fuel bp_q cands p tot winner hint = Some out -> out <> [] ->
    exists d, opt bp_q cands p tot winner = Val d /\
              (forall a tw tl q, In (a, tw, tl, q) out -> (q <= d)%Q) /\
              (exists a tw tl q, In (a, tw, tl, q) out /\ (d <= q)%Q).
Proof. exact raire_model_optimal_bp. Qed.
Print Assumptions C15_algo_optimal_bp.

Theorem C15_algo_fuel_mono :
  forall f f' dfun cands p tot winner hint out,
    raire f dfun cands p tot winner hint = Some out -> f <= f' ->
    raire f' dfun cands p tot winner hint = Some out.
Proof. exact raire_fuel_mono. Qed.
Print Assumptions C15_algo_fuel_mono.

(* the reported difficulties are the difficulty function applied to the reported tallies *)
Theorem C15_algo_difficulties :
  forall fuel dfun cands p tot winner hint out,
    raire fuel dfun cands p tot winner hint = Some out ->
    forall a tw tl d, In (a, tw, tl, d) out -> d = dfun tw tl tot.
Proof. exact raire_model_difficulties. Qed.
Print Assumptions C15_algo_difficulties.


(* ---- non-vacuity *)
Definition ex_cands : list cand := [0; 1; 2].
Definition ex_profile : profile :=
  [[0;1;2]; [0;1;2]; [0;2]; [0]; [1;0]; [1;2;0]; [2;1;0]; [2;1]; [2;0;1]; []].
Example ex_nodup : NoDup ex_cands.
Proof. repeat constructor; simpl; intuition discriminate. Qed.
(* the Val branch is inhabited: cp difficulty 10 (margin 1 of 10 ballots: NEN 0 2 [1], 5 against 4), bp difficulty 90 *)
Example ex_opt : opt cp_q ex_cands ex_profile 10 0 = Val (10 # 1)
              /\ opt bp_q ex_cands ex_profile 10 0 = Val (90 # 1)
              /\ opt cp_q ex_cands ex_profile 10 2 = Top
              /\ opt cp_q [0] [[0]] 1 0 = Bot.
Proof. vm_compute. repeat split; reflexivity. Qed.
(* the model of the search on the example: non-empty, and its largest difficulty is the optimum 10 (cp) *)
Example ex_algo_optimal :
  match raire (default_fuel ex_cands) cp_q ex_cands ex_profile 10 0 [] with
  | Some out => negb (Nat.eqb (length out) 0) && forallb (fun r => Qle_bool (snd r) (10 # 1)) out
                && existsb (fun r => Qle_bool (10 # 1) (snd r)) out
  | None => false
  end = true.
Proof. vm_compute. reflexivity. Qed.
