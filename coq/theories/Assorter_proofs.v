(* Assorter_proofs.v — lemmas behind property C02, for card lists of any length (induction over the list). *)
From SV Require Import Assorter.
From Coq Require Import Permutation.
Open Scope Q_scope.

(* ------------------------------------------------------------------ small facts *)
Lemma as_vote_cases m : as_vote m = 0%Z \/ as_vote m = 1%Z.
Proof. unfold as_vote. destruct (truthy m); auto. Qed.

Lemma one_vote_term_eq c con x : one_vote_term c con x = as_vote (get_vote_for c con x).
Proof.
  unfold one_vote_term, get_vote_for, as_vote.
  destruct (assoc con (c_votes c)) as [vs|]; [|reflexivity].
  destruct (assoc x vs) as [m|]; reflexivity.
Qed.

Lemma no_contest_vote c con x : has_contest c con = false -> as_vote (get_vote_for c con x) = 0%Z.
Proof.
  unfold has_contest, get_vote_for. destruct (assoc con (c_votes c)); [discriminate|reflexivity].
Qed.

Lemma zsum_map_ext_in {A} (f g : A -> Z) l :
  (forall a, In a l -> f a = g a) -> zsum (map f l) = zsum (map g l).
Proof.
  induction l as [|a l IH]; intro H; simpl; [reflexivity|].
  rewrite (H a (or_introl eq_refl)), IH; [reflexivity|]. intros b Hb. apply H. now right.
Qed.
Lemma zsum_map_zero {A} (l : list A) : zsum (map (fun _ => 0%Z) l) = 0%Z.
Proof. induction l; simpl; auto. Qed.
Lemma zsum_map_add {A} (f g : A -> Z) l :
  zsum (map (fun a => (f a + g a)%Z) l) = (zsum (map f l) + zsum (map g l))%Z.
Proof. induction l as [|a l IH]; simpl; [reflexivity|]. rewrite IH. ring. Qed.
Lemma zsum_swap {A B} (h : A -> B -> Z) (xs : list B) (cs : list A) :
  zsum (map (fun x => zsum (map (fun c => h c x) cs)) xs) = zsum (map (fun c => zsum (map (fun x => h c x) xs)) cs).
Proof.
  induction xs as [|x xs IH]; simpl.
  - now rewrite zsum_map_zero.
  - rewrite IH. now rewrite <- zsum_map_add.
Qed.
Lemma zsum_nonneg_le {A} (f : A -> Z) l a :
  (forall b, (0 <= f b)%Z) -> In a l -> (f a <= zsum (map f l))%Z.
Proof.
  intros Hf. induction l as [|b l IH]; simpl; intros Hin; [contradiction|].
  assert (0 <= zsum (map f l))%Z.
  { clear -Hf. induction l as [|a0 l IHl]; simpl; [lia|]. specialize (Hf a0). lia. }
  destruct Hin as [->|Hin]; [lia|]. specialize (IH Hin). specialize (Hf b). lia.
Qed.
Lemma zsum_perm l l' : Permutation l l' -> zsum l = zsum l'.
Proof. induction 1; simpl; lia. Qed.

Lemma listed_no_contest c con cands : has_contest c con = false -> listed_marks con cands c = 0%Z.
Proof.
  intro H. unfold listed_marks. rewrite (zsum_map_ext_in _ (fun _ => 0%Z)); [apply zsum_map_zero|].
  intros x _. rewrite one_vote_term_eq. now apply no_contest_vote.
Qed.
Lemma has_one_vote_no_contest c con cands : has_contest c con = false -> has_one_vote c con cands = false.
Proof. intro H. unfold has_one_vote. fold (listed_marks con cands c). now rewrite listed_no_contest. Qed.

(* cards removed by the style filter carry no vote and no valid ballot *)
Lemma votes_filter us con x cs : votes con x (style_filter us con cs) = votes con x cs.
Proof.
  unfold votes, style_filter. induction cs as [|c cs IH]; simpl; [reflexivity|].
  destruct (negb us || has_contest c con) eqn:E; simpl; [now rewrite IH|].
  apply orb_false_iff in E. destruct E as [_ E]. rewrite (no_contest_vote _ _ _ E). now rewrite IH.
Qed.
Lemma valid_filter us con cands cs : valid_votes con cands (style_filter us con cs) = valid_votes con cands cs.
Proof.
  unfold valid_votes, style_filter. induction cs as [|c cs IH]; simpl; [reflexivity|].
  destruct (negb us || has_contest c con) eqn:E; simpl; [now rewrite IH|].
  apply orb_false_iff in E. destruct E as [_ E]. rewrite (has_one_vote_no_contest _ _ _ E). simpl. now rewrite IH.
Qed.
Lemma valid_for_filter us con cands w cs :
  valid_votes_for con cands w (style_filter us con cs) = valid_votes_for con cands w cs.
Proof.
  unfold valid_votes_for, style_filter. induction cs as [|c cs IH]; simpl; [reflexivity|].
  destruct (negb us || has_contest c con) eqn:E; simpl; [now rewrite IH|].
  apply orb_false_iff in E. destruct E as [_ E]. rewrite (has_one_vote_no_contest _ _ _ E). simpl. now rewrite IH.
Qed.

Lemma nlen_cons {A} (a : A) l : nlen (a :: l) == 1 + nlen l.
Proof.
  unfold nlen. simpl List.length. rewrite Nat2Z.inj_succ. unfold Z.succ. rewrite inject_Z_plus. simpl. ring.
Qed.
Lemma nlen_pos {A} (l : list A) : l <> [] -> 0 < nlen l.
Proof.
  destruct l as [|a l]; [congruence|]. intros _. unfold nlen. simpl List.length.
  rewrite Nat2Z.inj_succ. replace 0 with (inject_Z 0) by reflexivity. rewrite <- Zlt_Qlt. lia.
Qed.

Lemma inject_Z_sub a b : inject_Z (a - b) == inject_Z a - inject_Z b.
Proof. unfold Z.sub. rewrite inject_Z_plus, inject_Z_opp. reflexivity. Qed.

Lemma Qdiv2 x : x / 2 == x * (1 # 2).
Proof. reflexivity. Qed.

(* 1/2 < s/n  <->  n/2 < s   for n > 0 *)
Lemma half_lt_div s n : 0 < n -> ((1 # 2) < s / n <-> n * (1 # 2) < s).
Proof.
  intro Hn. split; intro H.
  - destruct (Qlt_le_dec (n * (1 # 2)) s) as [|Hle]; [assumption|]. exfalso.
    assert (s / n <= 1 # 2). { apply Qle_shift_div_r; [assumption|]. lra. }
    lra.
  - apply Qlt_shift_div_l; [assumption|]. lra.
Qed.

(* ------------------------------------------------------------------ plurality / approval *)
(* the key identity: sum of assort_pl w l over the cards = (votes w - votes l + n) / 2 *)
Lemma sum_assort_pl con w l cs :
  qsum (map (assort_pl con w l) cs) == (inject_Z (votes con w cs) - inject_Z (votes con l cs) + nlen cs) / 2.
Proof.
  induction cs as [|c cs IH].
  - unfold votes, nlen. simpl. reflexivity.
  - rewrite nlen_cons. unfold votes in *. simpl. rewrite IH. unfold assort_pl.
    rewrite !inject_Z_plus, inject_Z_sub. simpl (inject_Z 1).
    field.
Qed.

Lemma pl_pair_iff us con w l cs :
  xlt (Fin (1 # 2)) (mean us con (assort_pl con w l) cs) = true <-> (votes con l cs < votes con w cs)%Z.
Proof.
  unfold mean. rewrite <- (votes_filter us con w cs), <- (votes_filter us con l cs).
  destruct (style_filter us con cs) as [|c0 fs] eqn:E.
  - unfold votes. simpl. split; [discriminate|lia].
  - set (l0 := c0 :: fs). assert (Hn : 0 < nlen l0) by (apply nlen_pos; discriminate).
    clearbody l0. unfold xlt. rewrite Qlt_bool_iff, half_lt_div by assumption. rewrite sum_assort_pl.
    rewrite Zlt_Qlt, Qdiv2. split; intro H; lra.
Qed.

Lemma plurality_iff us con cs W L :
  (forall w l, In w W -> In l L -> xlt (Fin (1 # 2)) (mean us con (assort_pl con w l) cs) = true)
  <-> (forall w l, In w W -> In l L -> (votes con w cs > votes con l cs)%Z).
Proof.
  split; intros H w l Hw Hl; specialize (H w l Hw Hl).
  - apply pl_pair_iff in H. lia.
  - apply pl_pair_iff. lia.
Qed.

(* ------------------------------------------------------------------ super-majority *)
Lemma sum_assort_sm con f w cands cs : 0 < f ->
  qsum (map (assort_sm con f w cands) cs)
  == inject_Z (valid_votes_for con cands w cs) / (2 * f) + (nlen cs - inject_Z (valid_votes con cands cs)) / 2.
Proof.
  intro Hf. induction cs as [|c cs IH].
  - unfold valid_votes_for, valid_votes, nlen. simpl. field. lra.
  - rewrite nlen_cons. unfold valid_votes_for, valid_votes in *. simpl. rewrite IH. unfold assort_sm.
    destruct (has_one_vote c con cands); simpl b2z; rewrite !inject_Z_plus; simpl (inject_Z 1); simpl (inject_Z 0);
      field; lra.
Qed.

Lemma supermajority_iff us con f w cands cs : 0 < f ->
  (xlt (Fin (1 # 2)) (mean us con (assort_sm con f w cands) cs) = true
   <-> f * inject_Z (valid_votes con cands cs) < inject_Z (valid_votes_for con cands w cs)).
Proof.
  intro Hf. unfold mean.
  rewrite <- (valid_filter us con cands cs), <- (valid_for_filter us con cands w cs).
  destruct (style_filter us con cs) as [|c0 fs] eqn:E.
  - unfold valid_votes, valid_votes_for. simpl. change (inject_Z 0) with 0. split; [discriminate|intro H; lra].
  - set (l0 := c0 :: fs). assert (Hn : 0 < nlen l0) by (apply nlen_pos; discriminate).
    clearbody l0. unfold xlt. rewrite Qlt_bool_iff, half_lt_div by assumption. rewrite (sum_assort_sm _ _ _ _ _ Hf).
    set (wv := inject_Z (valid_votes_for con cands w l0)). set (v := inject_Z (valid_votes con cands l0)).
    set (n := nlen l0) in *.
    assert (Ht : wv / (2 * f) * (2 * f) == wv) by (field; lra).
    set (t := wv / (2 * f)) in *.
    rewrite Qdiv2. clearbody t wv v n.
    split; intro H.
    + assert (H1 : v * (1 # 2) < t) by lra. nra.
    + assert (H1 : v * (1 # 2) < t) by nra. lra.
Qed.

(* ------------------------------------------------------------------ ranges *)
Lemma range_pl con w l c : 0 <= assort_pl con w l c /\ assort_pl con w l c <= ub_pl.
Proof.
  unfold assort_pl, ub_pl.
  destruct (as_vote_cases (get_vote_for c con w)) as [-> | ->];
    destruct (as_vote_cases (get_vote_for c con l)) as [-> | ->]; split; unfold Qle; simpl; lia.
Qed.

Lemma range_sm con f w cands c : 0 < f -> f <= 1 ->
  0 <= assort_sm con f w cands c /\ assort_sm con f w cands c <= ub_sm f.
Proof.
  intros Hf H1. unfold assort_sm, ub_sm.
  assert (H2f : 0 < 2 * f) by lra.
  assert (Hub : 0 <= 1 / (2 * f)). { apply Qle_shift_div_l; [assumption|lra]. }
  assert (Hhalf : (1 # 2) <= 1 / (2 * f)). { apply Qle_shift_div_l; [assumption|lra]. }
  destruct (has_one_vote c con cands).
  - destruct (as_vote_cases (get_vote_for c con w)) as [-> | ->].
    + change (inject_Z 0) with 0. assert (E : 0 / (2 * f) == 0) by (field; lra). rewrite E. split; [lra|assumption].
    + change (inject_Z 1) with 1. split; [assumption|apply Qle_refl].
  - split; [lra|assumption].
Qed.

(* ------------------------------------------------------------------ tallies *)
Definition lookup0 (k : Z) (l : list (Z * Z)) : Z := match assoc k l with Some v => v | None => 0%Z end.

Lemma lookup0_bump k k' d l :
  lookup0 k (bump k' d l) = if (k' =? k)%Z then (lookup0 k l + d)%Z else lookup0 k l.
Proof.
  unfold lookup0. induction l as [|[k0 v0] l IH]; simpl.
  - destruct (k' =? k)%Z; reflexivity.
  - destruct (k0 =? k')%Z eqn:E0; simpl.
    + apply Z.eqb_eq in E0. subst k0. destruct (k' =? k)%Z; reflexivity.
    + destruct (k0 =? k)%Z eqn:E1.
      * apply Z.eqb_eq in E1. subst k0. rewrite Z.eqb_sym in E0. now rewrite E0.
      * apply IH.
Qed.

Lemma assoc_notin {A} k (l : list (Z * A)) : ~ In k (keys l) -> assoc k l = None.
Proof.
  induction l as [|[k0 v0] l IH]; simpl; intro H; [reflexivity|].
  destruct (k0 =? k)%Z eqn:E; [apply Z.eqb_eq in E; tauto|]. apply IH. tauto.
Qed.
Lemma assoc_in {A} k (l : list (Z * A)) v : assoc k l = Some v -> In (k, v) l.
Proof.
  induction l as [|[k0 v0] l IH]; simpl; intro H; [discriminate|].
  destruct (k0 =? k)%Z eqn:E; [apply Z.eqb_eq in E; inversion H; subst; now left|]. right. now apply IH.
Qed.

Definition entry_step (a : list (Z * Z)) (xm : cand * mark) : list (Z * Z) :=
  if name_truthy (fst xm) then bump (fst xm) (as_vote (snd xm)) a else a.
Definition mark_of (x : cand) (vs : votes_t) : mark := match assoc x vs with Some m => m | None => MBool false end.

Lemma lookup0_entries x vs : NoDup (keys vs) -> forall acc,
  lookup0 x (fold_left entry_step vs acc)
  = (lookup0 x acc + if name_truthy x then as_vote (mark_of x vs) else 0)%Z.
Proof.
  unfold mark_of. induction vs as [|[k m] vs IH]; intros Hnd acc; simpl.
  - destruct (name_truthy x); unfold as_vote; simpl; lia.
  - inversion Hnd as [|? ? Hnotin Hnd']; subst. rewrite (IH Hnd'). unfold entry_step at 1. simpl fst. simpl snd.
    destruct (k =? x)%Z eqn:E.
    + apply Z.eqb_eq in E. subst k. rewrite (assoc_notin _ _ Hnotin).
      destruct (name_truthy x) eqn:Ex.
      * rewrite lookup0_bump, Z.eqb_refl. unfold as_vote at 2. simpl. lia.
      * lia.
    + destruct (name_truthy k).
      * rewrite lookup0_bump, E. reflexivity.
      * reflexivity.
Qed.

Lemma lookup0_tally_card e nw con c x acc : wf_card c ->
  lookup0 x (tally_card e nw con c acc)
  = (lookup0 x acc + if tallied e nw con c && name_truthy x then as_vote (get_vote_for c con x) else 0)%Z.
Proof.
  intros [_ Hwf]. unfold tally_card, tallied, get_vote_for.
  destruct (assoc con (c_votes c)) as [vs|] eqn:Ea.
  - destruct (negb e || (n_marks vs <=? nw)%Z); simpl andb.
    + change (fun (a : list (Z * Z)) (xm : cand * mark) =>
                if name_truthy (fst xm) then bump (fst xm) (as_vote (snd xm)) a else a) with entry_step.
      rewrite lookup0_entries; [reflexivity|]. apply (Hwf con). now apply assoc_in.
    + cbv iota. lia.
  - simpl andb. destruct (name_truthy x); unfold as_vote; simpl; lia.
Qed.

Definition tcount (e : bool) (nw : Z) (con : contest_id) (x : cand) (c : card) : Z :=
  if tallied e nw con c && name_truthy x then as_vote (get_vote_for c con x) else 0%Z.

Lemma lookup0_tally_fold e nw con x cs : Forall wf_card cs -> forall acc,
  lookup0 x (fold_left (fun a c => tally_card e nw con c a) cs acc)
  = (lookup0 x acc + zsum (map (tcount e nw con x) cs))%Z.
Proof.
  induction cs as [|c cs IH]; intros Hwf acc; simpl; [lia|].
  inversion Hwf; subst. rewrite IH by assumption. rewrite lookup0_tally_card by assumption. unfold tcount. lia.
Qed.
Lemma lookup0_tally e nw con x cs : Forall wf_card cs ->
  lookup0 x (tally_contest e nw con cs) = zsum (map (tcount e nw con x) cs).
Proof. intro H. unfold tally_contest. rewrite lookup0_tally_fold by assumption. reflexivity. Qed.

Lemma tget_default items x : tget (mktally items true) x = Some (lookup0 x items).
Proof. unfold tget, lookup0. simpl. destruct (assoc x items); reflexivity. Qed.
Lemma tsum_default items xs : tsum (mktally items true) xs = Some (zsum (map (fun x => lookup0 x items) xs)).
Proof. induction xs as [|x xs IH]; simpl; [reflexivity|]. now rewrite tget_default, IH. Qed.

(* no card dropped by the rule check: the tally of a truthy-named candidate is its vote count *)
Lemma tally_votes e nw con x cs : Forall wf_card cs -> x <> 0%Z -> pl_cards_ok e nw con cs = true ->
  lookup0 x (tally_contest e nw con cs) = votes con x cs.
Proof.
  intros Hwf Hx Hok. rewrite lookup0_tally by assumption. unfold votes. apply zsum_map_ext_in.
  intros c Hc. unfold tcount. unfold pl_cards_ok in Hok. rewrite forallb_forall in Hok. rewrite (Hok c Hc).
  unfold name_truthy. destruct (x =? 0)%Z eqn:E; [apply Z.eqb_eq in E; contradiction|]. reflexivity.
Qed.

Lemma arg_fallback (T : tally_dict) (arg : option tally_dict) :
  arg = None \/ arg = Some T ->
  match arg with
  | Some t => match t_items t with [] => Some T | _ => Some t end
  | None => Some T
  end = Some T.
Proof. intros [-> | ->]; [reflexivity|]. destruct (t_items T); reflexivity. Qed.

Lemma margin_tally_plurality sc e nw con cs w l us f candidates arg :
  sc = PLURALITY \/ sc = APPROVAL ->
  Forall wf_card cs -> w <> 0%Z -> l <> 0%Z -> pl_cards_ok e nw con cs = true ->
  style_filter us con cs <> [] ->
  let T := mktally (tally_contest e nw con cs) true in
  arg = None \/ arg = Some T ->
  exists m mg,
    mean us con (assort_pl con w l) cs = Fin m /\
    find_margin_from_tally arg (Some T) sc w l (Z.of_nat (List.length (style_filter us con cs))) f candidates
      = Val (Fin mg) /\
    mg == 2 * m - 1.
Proof.
  intros Hsc Hwf Hw Hl Hok Hne T Harg.
  assert (Hn : 0 < nlen (style_filter us con cs)) by (now apply nlen_pos).
  assert (HnZ : (Z.of_nat (List.length (style_filter us con cs)) =? 0)%Z = false).
  { apply Z.eqb_neq. destruct (style_filter us con cs); [congruence|]. simpl List.length. lia. }
  exists (qsum (map (assort_pl con w l) (style_filter us con cs)) / nlen (style_filter us con cs)).
  exists (inject_Z (votes con w cs - votes con l cs) / nlen (style_filter us con cs)).
  split; [|split].
  - unfold mean. destruct (style_filter us con cs); [congruence|reflexivity].
  - unfold find_margin_from_tally. rewrite (arg_fallback T arg Harg). unfold T.
    rewrite !tget_default, !tally_votes by assumption. rewrite HnZ.
    destruct Hsc as [-> | ->]; reflexivity.
  - rewrite sum_assort_pl, !votes_filter. rewrite inject_Z_sub. field. lra.
Qed.

(* super-majority: per card, the guard makes the tally and the assorter agree *)
Lemma sm_card_valid e nw con cands c : sm_card_ok e nw con cands c = true ->
  (if tallied e nw con c then listed_marks con cands c else 0%Z) = b2z (has_one_vote c con cands).
Proof.
  unfold sm_card_ok, has_one_vote. fold (listed_marks con cands c). set (k := listed_marks con cands c).
  intro H. apply orb_true_iff in H. destruct H as [H|H].
  - apply Z.eqb_eq in H. rewrite H. simpl. destruct (tallied e nw con c); reflexivity.
  - apply eqb_prop in H. rewrite H. destruct (k =? 1)%Z eqn:E; [apply Z.eqb_eq in E; now rewrite E|reflexivity].
Qed.
Lemma sm_card_winner e nw con cands w c : sm_card_ok e nw con cands c = true -> In w cands ->
  (if tallied e nw con c then as_vote (get_vote_for c con w) else 0%Z)
  = (if has_one_vote c con cands then as_vote (get_vote_for c con w) else 0%Z).
Proof.
  unfold sm_card_ok, has_one_vote. fold (listed_marks con cands c). set (k := listed_marks con cands c).
  intros H Hin. apply orb_true_iff in H. destruct H as [H|H].
  - apply Z.eqb_eq in H. rewrite H. simpl.
    assert (Hle : (one_vote_term c con w <= k)%Z).
    { unfold k, listed_marks. apply zsum_nonneg_le; [|assumption]. intro b. rewrite one_vote_term_eq.
      destruct (as_vote_cases (get_vote_for c con b)) as [-> | ->]; lia. }
    rewrite one_vote_term_eq in Hle. destruct (as_vote_cases (get_vote_for c con w)) as [E | E]; rewrite E in *.
    + destruct (tallied e nw con c); reflexivity.
    + lia.
  - apply eqb_prop in H. now rewrite H.
Qed.

Lemma tally_valid e nw con candidates acands cs :
  Forall wf_card cs -> Forall (fun x => x <> 0%Z) candidates -> Permutation candidates acands ->
  sm_cards_ok e nw con acands cs = true ->
  zsum (map (fun x => lookup0 x (tally_contest e nw con cs)) candidates) = valid_votes con acands cs.
Proof.
  intros Hwf Hnz Hperm Hok.
  rewrite (zsum_map_ext_in _ (fun x => zsum (map (fun c => tcount e nw con x c) cs))).
  2:{ intros x _. now apply lookup0_tally. }
  rewrite (zsum_swap (fun c x => tcount e nw con x c)). unfold valid_votes. apply zsum_map_ext_in.
  intros c Hc. unfold sm_cards_ok in Hok. rewrite forallb_forall in Hok. rewrite <- (sm_card_valid _ _ _ _ _ (Hok c Hc)).
  unfold listed_marks. rewrite <- (zsum_perm _ _ (Permutation_map (one_vote_term c con) Hperm)).
  destruct (tallied e nw con c) eqn:Et.
  - apply zsum_map_ext_in. intros x Hx. unfold tcount. rewrite Et. rewrite Forall_forall in Hnz.
    specialize (Hnz x Hx). unfold name_truthy. destruct (x =? 0)%Z eqn:E; [apply Z.eqb_eq in E; contradiction|].
    simpl. now rewrite one_vote_term_eq.
  - rewrite (zsum_map_ext_in _ (fun _ => 0%Z)); [apply zsum_map_zero|]. intros x _. unfold tcount. now rewrite Et.
Qed.

Lemma tally_winner e nw con acands w cs :
  Forall wf_card cs -> w <> 0%Z -> In w acands -> sm_cards_ok e nw con acands cs = true ->
  lookup0 w (tally_contest e nw con cs) = valid_votes_for con acands w cs.
Proof.
  intros Hwf Hw Hin Hok. rewrite lookup0_tally by assumption. unfold valid_votes_for. apply zsum_map_ext_in.
  intros c Hc. unfold sm_cards_ok in Hok. rewrite forallb_forall in Hok.
  rewrite <- (sm_card_winner _ _ _ _ _ _ (Hok c Hc) Hin). unfold tcount, name_truthy.
  destruct (w =? 0)%Z eqn:E; [apply Z.eqb_eq in E; contradiction|]. simpl. now rewrite andb_true_r.
Qed.

Lemma Qeq_bool_pos_false q : 0 < q -> Qeq_bool q 0 = false.
Proof. intro H. apply Qeq_bool_false. intro Hc. lra. Qed.

Lemma xdiv_fin a b : 0 < b -> xdiv (Fin a) (Fin b) = Fin (a / b).
Proof. intro H. unfold xdiv. now rewrite (Qeq_bool_pos_false _ H). Qed.

Lemma valid_for_bounds con cands w cs :
  (0 <= valid_votes_for con cands w cs <= valid_votes con cands cs)%Z.
Proof.
  unfold valid_votes_for, valid_votes. induction cs as [|c cs IH]; simpl; [lia|].
  destruct (has_one_vote c con cands); simpl b2z.
  - destruct (as_vote_cases (get_vote_for c con w)) as [E | E]; rewrite E; lia.
  - lia.
Qed.

Lemma margin_tally_supermajority e nw con cs w losers candidates us f arg :
  Forall wf_card cs -> Forall (fun x => x <> 0%Z) candidates -> In w candidates ->
  Permutation candidates (sm_cands w losers) -> w <> NO_CANDIDATE ->
  sm_cards_ok e nw con (sm_cands w losers) cs = true ->
  0 < f ->
  style_filter us con cs <> [] ->
  let T := mktally (tally_contest e nw con cs) true in
  arg = None \/ arg = Some T ->
  exists m mg,
    mean us con (assort_sm con f w (sm_cands w losers)) cs = Fin m /\
    find_margin_from_tally arg (Some T) SUPERMAJORITY w ALL_OTHERS
      (Z.of_nat (List.length (style_filter us con cs))) f candidates = Val (Fin mg) /\
    mg == 2 * m - 1.
Proof.
  intros Hwf Hnz Hin Hperm Hnc Hok Hf Hne T Harg.
  set (ac := sm_cands w losers) in *. set (fs := style_filter us con cs) in *.
  assert (Hn : 0 < nlen fs) by (now apply nlen_pos).
  assert (Hw0 : w <> 0%Z). { rewrite Forall_forall in Hnz. now apply Hnz. }
  assert (Hinac : In w ac). { unfold ac, sm_cands. apply in_or_app. right. now left. }
  pose proof (valid_for_bounds con ac w cs) as Hb.
  assert (Hmean : mean us con (assort_sm con f w ac) cs = Fin (qsum (map (assort_sm con f w ac) fs) / nlen fs)).
  { unfold mean. fold fs. destruct fs; [congruence|reflexivity]. }
  assert (Hfm : forall r,
    (let valid := valid_votes con ac cs in
     if (valid =? 0)%Z then Val (xmul (xdiv (zq valid) (zq (Z.of_nat (List.length fs)))) (xsub (xdiv (Fin 0) (Fin f)) (Fin 1)))
     else Val (xmul (xdiv (zq valid) (zq (Z.of_nat (List.length fs))))
                    (xsub (xdiv (xdiv (zq (valid_votes_for con ac w cs)) (zq valid)) (Fin f)) (Fin 1)))) = r ->
    find_margin_from_tally arg (Some T) SUPERMAJORITY w ALL_OTHERS (Z.of_nat (List.length fs)) f candidates = r).
  { intros r Hr. unfold find_margin_from_tally. rewrite (arg_fallback T arg Harg). unfold T.
    destruct (w =? NO_CANDIDATE)%Z eqn:E; [apply Z.eqb_eq in E; contradiction|].
    change (ALL_OTHERS =? ALL_OTHERS)%Z with true. simpl orb. cbv iota.
    rewrite tsum_default, (tally_valid e nw con candidates ac cs Hwf Hnz Hperm Hok).
    rewrite tget_default, (tally_winner e nw con ac w cs Hwf Hw0 Hinac Hok). exact Hr. }
  destruct (Z.eq_dec (valid_votes con ac cs) 0) as [Hv0 | Hv0].
  - (* no valid vote: p = 0, q = 0 / cards *)
    assert (Htw : valid_votes_for con ac w cs = 0%Z) by lia.
    exists (qsum (map (assort_sm con f w ac) fs) / nlen fs).
    exists (inject_Z 0 / nlen fs * (0 / f + - 1)).
    split; [exact Hmean|]. split.
    + apply Hfm. cbv zeta. rewrite Hv0. change (0 =? 0)%Z with true. cbv iota.
      unfold zq. change (inject_Z (Z.of_nat (List.length fs))) with (nlen fs).
      rewrite (xdiv_fin _ _ Hn), (xdiv_fin _ _ Hf). reflexivity.
    + rewrite (sum_assort_sm _ _ _ _ _ Hf). unfold fs. rewrite valid_filter, valid_for_filter. fold fs ac.
      rewrite Hv0, Htw. change (inject_Z 0) with 0. field. split; lra.
  - assert (Hvalid : (0 < valid_votes con ac cs)%Z) by lia.
    set (v := valid_votes con ac cs) in *. set (tw := valid_votes_for con ac w cs) in *.
    assert (Hv : 0 < inject_Z v). { replace 0 with (inject_Z 0) by reflexivity. now rewrite <- Zlt_Qlt. }
    exists (qsum (map (assort_sm con f w ac) fs) / nlen fs).
    exists (inject_Z v / nlen fs * (inject_Z tw / inject_Z v / f + - 1)).
    split; [exact Hmean|]. split.
    + apply Hfm. cbv zeta. fold v tw.
      destruct (v =? 0)%Z eqn:Ev; [apply Z.eqb_eq in Ev; contradiction|].
      unfold zq. change (inject_Z (Z.of_nat (List.length fs))) with (nlen fs).
      rewrite (xdiv_fin _ _ Hn), (xdiv_fin _ _ Hv), (xdiv_fin _ _ Hf). reflexivity.
    + rewrite (sum_assort_sm _ _ _ _ _ Hf). unfold fs. rewrite valid_filter, valid_for_filter. fold fs ac v tw.
      field. repeat split; lra.
Qed.

(* ---- Assertion.make_all_assertions, plurality: the family of assertions of a whole contest ---- *)
Lemma other_candidates_spec cands W l : In l (other_candidates cands W) <-> In l cands /\ ~ In l W.
Proof.
  unfold other_candidates. rewrite filter_In, nodup_In, Bool.negb_true_iff. split; intros [H1 H2]; split; try exact H1.
  - intro H. assert (E : existsb (Z.eqb l) W = true).
    { apply existsb_exists. exists l. split; [exact H | apply Z.eqb_refl]. }
    congruence.
  - destruct (existsb (Z.eqb l) W) eqn:E; [|reflexivity]. apply existsb_exists in E. destruct E as [x [Hx E]].
    apply Z.eqb_eq in E. subst. contradiction.
Qed.
Lemma all_plurality_pairs_spec cands W w l :
  In (w, l) (all_plurality_pairs cands W) <-> In w W /\ In l cands /\ ~ In l W.
Proof.
  unfold all_plurality_pairs, plurality_pairs. rewrite in_flat_map. split.
  - intros [w' [Hw Hin]]. apply in_map_iff in Hin. destruct Hin as [l' [E Hl]]. inversion E; subst.
    apply other_candidates_spec in Hl. tauto.
  - intros [Hw [Hl Hn]]. exists w. split; [exact Hw|]. apply in_map_iff. exists l. split; [reflexivity|].
    apply other_candidates_spec. tauto.
Qed.
(* every assorter of the family has mean above 1/2 iff every reported winner has more votes than every other candidate *)
Theorem make_all_plurality_iff use_style con cs cands W :
  (forall w l, In (w, l) (all_plurality_pairs cands W) ->
               xlt (Fin (1 # 2)) (mean use_style con (assort_pl con w l) cs) = true)
  <-> (forall w l, In w W -> In l cands -> ~ In l W -> (votes con w cs > votes con l cs)%Z).
Proof.
  pose proof (plurality_iff use_style con cs W (other_candidates cands W)) as [P1 P2]. split.
  - intros H w l Hw Hl Hn. apply P1; [|exact Hw|apply other_candidates_spec; tauto].
    intros w' l' Hw' Hl'. apply H. apply all_plurality_pairs_spec. apply other_candidates_spec in Hl'. tauto.
  - intros H w l Hin. apply all_plurality_pairs_spec in Hin. destruct Hin as [Hw [Hl Hn]].
    apply P2; [|exact Hw|apply other_candidates_spec; tauto].
    intros w' l' Hw' Hl'. apply other_candidates_spec in Hl'. apply H; tauto.
Qed.
