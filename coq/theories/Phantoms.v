(* Phantoms.v — executable model of phantom creation and phantom scoring (property C08).
   Mirrors, statement by statement,
     shangrla/core/Audit.py : CVR.make_phantoms, CVR.has_contest,
                              Assorter.overstatement, Assertion.overstatement_assorter
     shangrla/formats/Dominion.py, Hart.py : sample_from_cvrs (creation of phantom MVRs)
   No proofs here (Phantoms_proofs.v). *)
From SV Require Export Xq.
Open Scope Z_scope.

(* ---------------------------------------------------------------- records *)
(* A card identifier.  The Python side maps the string  prefix ++ str(k)  (k a canonical decimal) to [Phant k]
   and every other identifier to [Orig n] (n = index in a table of distinct identifiers). *)
Inductive ident := Orig (n : Z) | Phant (k : Z).

(* CVR object.  [ccontests] = keys of the votes dict in insertion order; [ctag] = opaque number standing for all the
   remaining content (the votes themselves, card_in_batch, sample_num, p, sampled): 0 = "every listed contest maps to {}
   and all other attributes have their constructor defaults"; [ctally_pool] = label (0 = None). *)
Record card := mkcard {
  cid : ident; ccontests : list Z; ctag : Z; cphantom : bool; ctally_pool : Z; cpool : bool }.

Inductive err := ENotImpl | EType | EValue | EKey | EStop | EAssert | EOther.
Inductive result (A : Type) := Ok (a : A) | Err (e : err).
Arguments Ok {A} a.
Arguments Err {A} e.

Definition ident_eqb (a b : ident) : bool :=
  match a, b with Orig n, Orig m => Z.eqb n m | Phant n, Phant m => Z.eqb n m | _, _ => false end.

(* CVR.has_contest: contest_id in self.votes *)
Definition has_contest (c : card) (k : Z) : bool := existsb (Z.eqb k) (ccontests c).

(* ---------------------------------------------------------------- make_phantoms *)
(* a contest as make_phantoms sees it: con.id, con.cards (None or a number); afterwards also con.cvrs *)
Record cstate := mkcs { cs_id : Z; cs_cards : option Z; cs_cvrs : Z }.

(* con.cvrs = int(np.sum([cvr.has_contest(con.id) for cvr in cvr_list if not cvr.phantom])) *)
Definition real_count (k : Z) (l : list card) : Z :=
  Z.of_nat (length (filter (fun c => negb (cphantom c) && has_contest c k) l)).

(* first loop of make_phantoms: con.cvrs = ...; con.cards = max_cards if (con.cards is None or not use_style) else con.cards *)
Definition set_params (use_style : bool) (max_cards : option Z) (l : list card) (kc : Z * option Z) : cstate :=
  mkcs (fst kc)
       (match snd kc with
        | None => max_cards
        | Some b => if negb use_style then max_cards else Some b
        end)
       (real_count (fst kc) l).

(* CVR(id=prefix + str(k), votes={}, phantom=True, tally_pool=tally_pool, pool=pool) *)
Definition new_phantom (tp : Z) (pool : bool) (k : Z) : card := mkcard (Phant k) [] 0 true tp pool.

(* while len(phantom_vrs) < phantoms_needed: phantom_vrs.append(CVR(id=prefix+str(len(phantom_vrs)+1), ...));
   n = number of iterations = max(0, needed - len) *)
Fixpoint grow_n (tp : Z) (pool : bool) (n : nat) (phs : list card) : list card :=
  match n with
  | O => phs
  | S n' => grow_n tp pool n' (phs ++ [new_phantom tp pool (Z.of_nat (length phs) + 1)])
  end.

(* phantom_vrs[i].votes[con.id] = {}  (a new key goes last; an existing key keeps its place, its value is {} again) *)
Definition add_contest (k : Z) (c : card) : card :=
  if has_contest c k then c
  else mkcard (cid c) (ccontests c ++ [k]) (ctag c) (cphantom c) (ctally_pool c) (cpool c).
(* for i in range(phantoms_needed): phantom_vrs[i].votes[con.id] = {} *)
Fixpoint mark_first (n : nat) (k : Z) (phs : list card) : list card :=
  match n, phs with
  | S n', c :: r => add_contest k c :: mark_first n' k r
  | _, _ => phs
  end.

(* body of the per-contest loop of the use_style branch; None - int raises TypeError *)
Definition style_step (tp : Z) (pool : bool) (phs : list card) (k : cstate) : result (list card) :=
  match cs_cards k with
  | None => Err EType
  | Some cards =>
      let needed := cards - cs_cvrs k in
      let phs1 := grow_n tp pool (Z.to_nat (needed - Z.of_nat (length phs))) phs in
      Ok (mark_first (Z.to_nat needed) (cs_id k) phs1)
  end.
Fixpoint style_loop (tp : Z) (pool : bool) (phs : list card) (ks : list cstate) : result (list card) :=
  match ks with
  | [] => Ok phs
  | k :: r => match style_step tp pool phs k with
              | Ok phs' => style_loop tp pool phs' r
              | Err e => Err e
              end
  end.

(* CVR.make_phantoms(audit, contests, cvr_list, prefix, tally_pool, pool):
   strata = [(use_style, max_cards)] of audit.strata in order; contests = [(con.id, con.cards)] in dict order.
   Result: (returned list, returned number, contests afterwards). *)
Definition make_phantoms (strata : list (bool * option Z)) (contests : list (Z * option Z))
           (cvrs : list card) (tp : Z) (pool : bool) : result (list card * Z * list cstate) :=
  match strata with
  | [] => Err EStop                              (* next(iter({}.values())) *)
  | _ :: _ :: _ => Err ENotImpl                  (* len(audit.strata) > 1 *)
  | [(use_style, max_cards)] =>
      let ks := map (set_params use_style max_cards cvrs) contests in
      if negb use_style then
        match max_cards with
        | None => Err EType                      (* None - int *)
        | Some mc =>
            let phantoms := mc - Z.of_nat (length cvrs) in
            let phs := map (fun i => new_phantom tp pool (Z.of_nat i + 1)) (seq 0 (Z.to_nat phantoms)) in
            Ok (cvrs ++ phs, phantoms, ks)
        end
      else
        match style_loop tp pool [] ks with
        | Err e => Err e
        | Ok phs => Ok (cvrs ++ phs, Z.of_nat (length phs), ks)
        end
  end.

(* number of records of a list that list contest k *)
Definition count_listing (k : Z) (l : list card) : Z :=
  Z.of_nat (length (filter (fun c => has_contest c k) l)).

(* Dominion/Hart.sample_from_cvrs: for s in sample: if cvr_list[s].phantom: mvr_phantoms.append(CVR(id=cvr_id, votes={}, phantom=True)) *)
Definition phantom_mvr (c : card) : card := mkcard (cid c) [] 0 true 0 false.
Definition sample_phantom_mvrs (cvrs : list card) (sample : list nat) : list card :=
  flat_map (fun s => match nth_error cvrs s with
                     | Some c => if cphantom c then [phantom_mvr c] else []
                     | None => []
                     end) sample.

(* ---------------------------------------------------------------- overstatement *)
Open Scope Q_scope.
Section Overstatement.
  Variable A : card -> Q.                  (* self.assort *)
  Variable k : Z.                          (* self.contest.id *)
  Variable pm : option (list (Z * Xq)).    (* self.tally_pool_means: None or a dict label -> mean (np.nan for an empty pool) *)

  (* mvr_assort = 0 if mvr.phantom or (use_style and not mvr.has_contest(id)) else self.assort(mvr) *)
  Definition mvr_assort_evaluated (use_style : bool) (mvr : card) : bool :=
    negb (cphantom mvr || (use_style && negb (has_contest mvr k))).
  Definition mvr_assort (use_style : bool) (mvr : card) : Q :=
    if mvr_assort_evaluated use_style mvr then A mvr else 0.

  Fixpoint lookup (key : Z) (d : list (Z * Xq)) : option Xq :=
    match d with
    | [] => None
    | (a, b) :: r => if Z.eqb a key then Some b else lookup key r
    end.
  (* cvr_assort = self.tally_pool_means[cvr.tally_pool] if cvr.pool and self.tally_pool_means is not None
                  else int(cvr.phantom)/2 + (1 - int(cvr.phantom)) * self.assort(cvr)     (assort IS called on phantoms) *)
  Definition cvr_uses_pool (cvr : card) : bool :=
    cpool cvr && match pm with Some _ => true | None => false end.
  Definition b2q (b : bool) : Q := if b then 1 else 0.
  Definition cvr_assort (cvr : card) : result Xq :=
    if cvr_uses_pool cvr then
      match pm with
      | Some d => match lookup (ctally_pool cvr) d with Some m => Ok m | None => Err EKey end
      | None => Err EOther
      end
    else Ok (Fin (b2q (cphantom cvr) / 2 + (1 - b2q (cphantom cvr)) * A cvr)).

  (* Assorter.overstatement(mvr, cvr, use_style) *)
  Definition overstatement (use_style : bool) (mvr cvr : card) : result Xq :=
    if use_style && negb (has_contest cvr k) then Err EValue
    else
      let ma := mvr_assort use_style mvr in
      match cvr_assort cvr with
      | Err e => Err e
      | Ok ca => Ok (xsub ca (Fin ma))
      end.

  (* Assertion.overstatement_assorter: (1 - overstatement/upper_bound) / (2 - margin/upper_bound) *)
  Definition overstatement_assorter (u v : Q) (use_style : bool) (mvr cvr : card) : result Xq :=
    match overstatement use_style mvr cvr with
    | Err e => Err e
    | Ok o => Ok (xdiv (xsub (Fin 1) (xdiv o (Fin u))) (Fin (2 - v / u)))
    end.
End Overstatement.
